package h

import (
	"fmt"
	"sort"
)

// Generators for the documented JSON fragment: nested maps, arrays as sets
// of distinct scalars, arrays of maps, scalars of every JSON type.  Reserved
// keys (rule, id, ttl, expires, deleteWith, _id, keys starting or ending in
// '!') never appear unless a world asks for them.

var GenKeys = []string{"a", "b", "c", "d", "kind", "who"}
var GenStrs = []string{"x", "y", "z", "homer", "beer", "a", "b"}

type GenOpts struct {
	Depth     int
	LongStr   bool // include strings at/above the term-length limit
	LongLimit int
	Empties   bool // allow {} and []
	Nulls     bool
}

func GenScalar(r *Rng, o GenOpts) interface{} {
	switch r.Weighted([]int{6, 3, 2, 1}) {
	case 0:
		if o.LongStr && r.P(1, 6) {
			n := o.LongLimit + r.Range(-1, 2)
			if n < 1 {
				n = 1
			}
			s := ""
			for len(s) < n {
				s += r.Pick(GenStrs)
			}
			return s[:n]
		}
		return r.Pick(GenStrs)
	case 1:
		if r.P(1, 5) {
			return float64(r.Range(0, 3)) + 0.5
		}
		return float64(r.Range(0, 3))
	case 2:
		return r.Bool()
	default:
		if o.Nulls {
			return nil
		}
		return r.Pick(GenStrs)
	}
}

func GenValue(r *Rng, o GenOpts) interface{} {
	if o.Depth <= 0 {
		return GenScalar(r, o)
	}
	switch r.Weighted([]int{6, 2, 2}) {
	case 0:
		return GenScalar(r, o)
	case 1:
		o2 := o
		o2.Depth--
		return GenMapN(r, o2, 0, 2)
	default:
		// array: a set of distinct scalars, or of maps
		n := r.Range(0, 3)
		if !o.Empties && n == 0 {
			n = 1
		}
		if r.P(1, 4) {
			o2 := o
			o2.Depth--
			xs := make([]interface{}, 0, n)
			seen := map[string]bool{}
			for i := 0; i < n; i++ {
				m := GenMapN(r, o2, 1, 2)
				if !seen[Canon(m)] {
					seen[Canon(m)] = true
					xs = append(xs, m)
				}
			}
			return xs
		}
		xs := make([]interface{}, 0, n)
		seen := map[string]bool{}
		for i := 0; i < n; i++ {
			v := GenScalar(r, o)
			if v == nil {
				continue
			}
			k := Canon(v)
			if !seen[k] {
				seen[k] = true
				xs = append(xs, v)
			}
		}
		if len(xs) == 0 && !o.Empties {
			xs = append(xs, r.Pick(GenStrs))
		}
		return xs
	}
}

func GenMapN(r *Rng, o GenOpts, lo, hi int) map[string]interface{} {
	n := r.Range(lo, hi)
	if !o.Empties && n == 0 {
		n = 1
	}
	m := map[string]interface{}{}
	for i := 0; i < n; i++ {
		m[r.Pick(GenKeys)] = GenValue(r, o)
	}
	return m
}

// GenFact makes a plain fact body.
func GenFact(r *Rng, o GenOpts) map[string]interface{} {
	return GenMapN(r, o, 1, 3)
}

// PatOpts controls how a pattern is derived from data.
type PatOpts struct {
	VarP     int  // chance (per 10) that a value is replaced by a variable
	DropP    int  // chance (per 10) that a key / element is dropped
	Perturb  bool // change one constant so that the pattern (probably) fails
	PropVar  bool // allow one variable in property position
	// Reuse allows a variable to occur twice (equality constraint).  Only
	// sound as an oracle input when every data value is a scalar: the real
	// matcher's treatment of a repeated variable bound to an array depends on
	// map iteration order, which is matching's own business (C05).
	Reuse bool
	nextVar  int
	used     []string
	perturbed bool
}

func (p *PatOpts) newVar(r *Rng) string {
	if p.Reuse && len(p.used) > 0 && r.P(1, 3) {
		return r.Pick(p.used) // repeated variable: equality constraint
	}
	p.nextVar++
	v := fmt.Sprintf("?v%d", p.nextVar)
	p.used = append(p.used, v)
	return v
}

// GenPatternFrom derives a pattern that (unless perturbed) matches data.
func GenPatternFrom(r *Rng, data map[string]interface{}, po *PatOpts) map[string]interface{} {
	out := patMap(r, data, po, true)
	if po.Perturb && !po.perturbed {
		out[r.Pick(GenKeys)] = "nomatch"
	}
	return out
}

func patMap(r *Rng, m map[string]interface{}, po *PatOpts, top bool) map[string]interface{} {
	out := map[string]interface{}{}
	keys := make([]string, 0, len(m))
	for k := range m {
		keys = append(keys, k)
	}
	sort.Strings(keys)
	// a property variable is only legal as the sole key of its map
	if po.PropVar && len(keys) > 0 && r.P(1, 6) {
		k := r.Pick(keys)
		out["?k"] = patVal(r, m[k], po)
		return out
	}
	for _, k := range keys {
		if len(keys) > 1 && r.P(po.DropP, 10) {
			continue
		}
		out[k] = patVal(r, m[k], po)
	}
	if len(out) == 0 && len(keys) > 0 && !top {
		k := keys[0]
		out[k] = patVal(r, m[k], po)
	}
	return out
}

func patVal(r *Rng, v interface{}, po *PatOpts) interface{} {
	if r.P(po.VarP, 10) {
		return po.newVar(r)
	}
	switch x := v.(type) {
	case map[string]interface{}:
		return patMap(r, x, po, false)
	case []interface{}:
		out := []interface{}{}
		hasVar := false
		for _, e := range x {
			if r.P(po.DropP, 10) {
				continue
			}
			if em, isMap := e.(map[string]interface{}); isMap {
				out = append(out, patMap(r, em, po, false))
				continue
			}
			if !hasVar && r.P(po.VarP, 10) {
				out = append(out, po.newVar(r))
				hasVar = true
			} else {
				out = append(out, e)
			}
		}
		return out
	default:
		if po.Perturb && !po.perturbed && r.P(1, 3) {
			po.perturbed = true
			switch x.(type) {
			case string:
				return "nomatch"
			case float64:
				return x.(float64) + 17
			case bool:
				return !x.(bool)
			}
			return "nomatch"
		}
		return v
	}
}

// GenEventFrom instantiates a pattern into an event: variables get values,
// extra keys and elements are added.
func GenEventFrom(r *Rng, pattern map[string]interface{}, o GenOpts, perturb bool) map[string]interface{} {
	binds := map[string]interface{}{}
	ev := instMap(r, pattern, o, binds)
	if r.P(1, 2) {
		k := r.Pick(GenKeys)
		if _, has := ev[k]; !has {
			ev[k] = GenScalar(r, o)
		}
	}
	if perturb {
		keys := make([]string, 0, len(ev))
		for k := range ev {
			keys = append(keys, k)
		}
		sort.Strings(keys)
		if len(keys) > 0 {
			k := r.Pick(keys)
			if r.Bool() {
				delete(ev, k)
			} else {
				ev[k] = "perturbed"
			}
		}
	}
	return ev
}

func instMap(r *Rng, m map[string]interface{}, o GenOpts, binds map[string]interface{}) map[string]interface{} {
	out := map[string]interface{}{}
	keys := make([]string, 0, len(m))
	for k := range m {
		keys = append(keys, k)
	}
	sort.Strings(keys)
	for _, k := range keys {
		kk := k
		if len(k) > 0 && k[0] == '?' {
			kk = r.Pick(GenKeys)
		}
		out[kk] = instVal(r, m[k], o, binds)
	}
	return out
}

func instVal(r *Rng, v interface{}, o GenOpts, binds map[string]interface{}) interface{} {
	switch x := v.(type) {
	case string:
		if len(x) > 0 && x[0] == '?' {
			if b, ok := binds[x]; ok {
				return Clone(b)
			}
			o2 := o
			o2.Depth = 1
			b := GenValue(r, o2)
			binds[x] = b
			return Clone(b)
		}
		return x
	case map[string]interface{}:
		return instMap(r, x, o, binds)
	case []interface{}:
		out := []interface{}{}
		seen := map[string]bool{}
		for _, e := range x {
			iv := instVal(r, e, o, binds)
			if _, isArr := iv.([]interface{}); isArr {
				iv = "arr"
			}
			if !seen[Canon(iv)] {
				seen[Canon(iv)] = true
				out = append(out, iv)
			}
		}
		if r.P(1, 3) {
			extra := GenScalar(r, o)
			if extra != nil && !seen[Canon(extra)] {
				out = append(out, extra)
			}
		}
		return out
	default:
		return v
	}
}
