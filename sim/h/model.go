package h

import (
	"fmt"
	"sort"
	"strings"
	"time"

	"github.com/Comcast/rulio/core"
)

// The reference model.  Written from the property statements and the manual:
// a location is a map from ids to items, everything (facts, rules, property
// facts) is an item, there are no indexes, no caches and no locks.  The real
// matcher (core.Matches) is the matching primitive (matching itself is C05's
// subject and is outside what this machinery judges).

type Item struct {
	Id      string
	Body    map[string]interface{} // as observable through get (ttl replaced by absolute expires)
	Expires int64                  // unix seconds, 0 = never
}

type MLoc struct {
	Name     string
	Items    map[string]*Item
	ReadOnly bool
}

type Model struct {
	Locs     map[string]*MLoc
	Now      func() time.Time
	IdInject bool
	MaxFacts int
	// Pending (per location): expired items the model has purged but whose
	// engine-side purge is not yet confirmed by an observation of that id.
	Pending map[string]map[string]bool
	// UncBy (per location): id -> the pending ids that make its presence a
	// don't-care (it is, or was, a transitive dependent of an expired item
	// whose purge the engine performs only when it observes that item).
	UncBy map[string]map[string]map[string]bool
}

func NewModel(now func() time.Time) *Model {
	return &Model{Locs: map[string]*MLoc{}, Now: now, MaxFacts: 1 << 30,
		Pending: map[string]map[string]bool{}, UncBy: map[string]map[string]map[string]bool{}}
}

func (m *Model) pend(l *MLoc) map[string]bool {
	p, ok := m.Pending[l.Name]
	if !ok {
		p = map[string]bool{}
		m.Pending[l.Name] = p
	}
	return p
}

func (m *Model) unc(l *MLoc) map[string]map[string]bool {
	u, ok := m.UncBy[l.Name]
	if !ok {
		u = map[string]map[string]bool{}
		m.UncBy[l.Name] = u
	}
	return u
}

func (m *Model) markUnc(l *MLoc, id string, by map[string]bool) {
	u := m.unc(l)
	if u[id] == nil {
		u[id] = map[string]bool{}
	}
	for k := range by {
		u[id][k] = true
	}
}

// noteWrite updates the uncertainty bookkeeping when id is (re)written: the
// write makes its presence certain again unless it names, in deleteWith, an
// id whose purge is pending or which is itself uncertain.
func (m *Model) noteWrite(l *MLoc, it *Item) {
	u := m.unc(l)
	if by, ok := u[it.Id]; ok {
		// The id had gone, in the model, as a dependent of an expired item the
		// engine has not looked at yet - in the engine its old holder is still
		// there and is being overwritten now.  What went with the old holder in
		// the model (its properties, its dependents) will not go in the engine
		// when the expired item is finally observed, or went already: observing
		// it settles nothing for them any more.
		for d, dby := range u {
			if d == it.Id {
				continue
			}
			for k := range by {
				if dby[k] {
					m.markUnc(l, d, map[string]bool{"+" + it.Id: true})
					break
				}
			}
		}
	}
	delete(u, it.Id)
	delete(m.pend(l), it.Id)
	xs, _ := it.Body["deleteWith"].([]interface{})
	for _, x := range xs {
		s, ok := x.(string)
		if !ok {
			continue
		}
		if m.pend(l)[s] {
			// written while the purge of s is pending: whether the engine's
			// later purge of s takes this item along cannot be known, and
			// observing s does not settle it ("+": never cleared by Confirm)
			m.markUnc(l, it.Id, map[string]bool{"+" + s: true})
		}
		if by, ok := u[s]; ok && s != it.Id {
			m.markUnc(l, it.Id, by)
			if _, present := l.Items[s]; !present {
				// s has gone in the model (with an expired item the engine has
				// not looked at) but is still there in the engine: when the
				// engine gets to it, this new item goes along - or not, if s
				// is rewritten first.  Observing the expired item settles s,
				// not this.
				m.markUnc(l, it.Id, map[string]bool{"+" + s: true})
			}
		}
	}
	if by, ok := u[it.Id]; ok {
		// whatever already depends on this id shares its fate
		for d := range m.Dependents(l, it.Id) {
			if d != it.Id {
				m.markUnc(l, d, by)
			}
		}
	}
}

// AdoptWritten installs it as the engine's current content of its id (found
// there after an interrupted write) with the bookkeeping of a write: a
// pending purge of the id is off (the engine holds a live item under it).
func (m *Model) AdoptWritten(loc string, it *Item) {
	l := m.Loc(loc)
	l.Items[it.Id] = it
	m.noteWrite(l, it)
}

// Confirm records that the engine has observed id (GetFact): if its purge
// was pending it has now happened, together with its cascade.
func (m *Model) Confirm(loc, id string) {
	l := m.Loc(loc)
	m.Purge(l)
	if !m.pend(l)[id] {
		return
	}
	delete(m.pend(l), id)
	u := m.unc(l)
	for d, by := range u {
		delete(by, id)
		if len(by) == 0 {
			delete(u, d)
		}
	}
}

// ConfirmAll records that the engine has observed every stored item.
func (m *Model) ConfirmAll(loc string) {
	l := m.Loc(loc)
	m.Purge(l)
	m.Pending[l.Name] = map[string]bool{}
	m.UncBy[l.Name] = map[string]map[string]bool{}
}

// IsUncertain reports whether the presence of id is a don't-care.
func (m *Model) IsUncertain(loc, id string) bool {
	_, ok := m.unc(m.Loc(loc))[id]
	return ok
}

// Forget drops all uncertainty bookkeeping of a location (Clear).
func (m *Model) Forget(loc string) {
	delete(m.Pending, loc)
	delete(m.UncBy, loc)
}

func (m *Model) Loc(name string) *MLoc {
	l, ok := m.Locs[name]
	if !ok {
		l = &MLoc{Name: name, Items: map[string]*Item{}}
		m.Locs[name] = l
	}
	return l
}

func (m *Model) nowSecs() int64 { return m.Now().UTC().Unix() }

// ErrModel marks "the operation must fail" (any error will do).
type ErrModel struct{ Why string }

func (e *ErrModel) Error() string { return "model: " + e.Why }

func refuse(f string, a ...interface{}) error { return &ErrModel{fmt.Sprintf(f, a...)} }

// IsPropBody reports whether body is a property fact and returns target and prop.
func IsPropBody(body map[string]interface{}) (is bool, target, prop string, err error) {
	n := 0
	for k := range body {
		if len(k) > 0 && k[0] == '!' {
			n++
			prop = k[1:]
		}
	}
	if n == 0 {
		return false, "", "", nil
	}
	if n > 1 {
		return false, "", "", refuse("more than one property key")
	}
	if x, ok := body["id"]; ok {
		s, ok := x.(string)
		if !ok {
			return false, "", "", refuse("property target id is not a string")
		}
		target = s
	}
	return true, target, prop, nil
}

func PropId(target, prop string) string { return "!" + target + "." + prop }

// prepare computes the item that writing (id, body) creates, or the refusal.
// generated is true when the engine must invent the id.
func (m *Model) prepare(id string, body map[string]interface{}) (it *Item, generated bool, err error) {
	b := CloneMap(body)
	isProp, target, prop, err := IsPropBody(b)
	if err != nil {
		return nil, false, err
	}
	if isProp {
		id = PropId(target, prop)
	} else if id == "" {
		generated = true
	}
	var expires int64
	has := false
	if ttl, ok := b["ttl"]; ok {
		delete(b, "ttl")
		switch v := ttl.(type) {
		case float64:
			expires = m.nowSecs() + int64(v)
		case string:
			d, e := time.ParseDuration(v)
			if e != nil {
				return nil, false, refuse("bad ttl")
			}
			expires = m.Now().Add(d).UTC().Unix()
		default:
			return nil, false, refuse("bad ttl type")
		}
		b["expires"] = float64(expires)
		has = true
	}
	if ex, ok := b["expires"]; ok {
		switch v := ex.(type) {
		case float64:
			expires = int64(v)
		case string:
			t, e := time.Parse(time.RFC3339, v)
			if e != nil {
				return nil, false, refuse("bad expires")
			}
			expires = t.UTC().Unix()
			b["expires"] = float64(expires)
		default:
			return nil, false, refuse("bad expires type")
		}
		has = true
		if r, ok := b["rule"]; ok {
			rm, ok := r.(map[string]interface{})
			if !ok {
				return nil, false, refuse("rule is not a map")
			}
			rm["expires"] = float64(expires)
		}
	}
	if has && expires != 0 && expires <= m.nowSecs() {
		return nil, false, refuse("already expired")
	}
	if !has {
		expires = 0
	}
	return &Item{Id: id, Body: b, Expires: expires}, generated, nil
}

// Live reports whether the item is observable now.
func (m *Model) Live(it *Item) bool {
	return it.Expires == 0 || m.nowSecs() < it.Expires
}

// Prot is the caller's credentials.
type Prot struct{ RK, WK string }

func (m *Model) propString(l *MLoc, prop string) string {
	it, ok := l.Items[PropId("", prop)]
	if !ok || !m.Live(it) {
		return ""
	}
	s, _ := it.Body["!"+prop].(string)
	return s
}

func (m *Model) Enabled(l *MLoc) bool {
	e := m.propString(l, "enabled")
	return e == "" || e == "yes" || e == "true"
}

func (m *Model) CanWrite(l *MLoc, p Prot) bool {
	if l.ReadOnly {
		return false
	}
	k := m.propString(l, "writeKey")
	return k == "" || k == p.WK
}

func (m *Model) CanRead(l *MLoc, p Prot) bool {
	k := m.propString(l, "readKey")
	return k == "" || k == p.RK
}

// Count is the number of stored items (expired but unpurged items may or may
// not be counted by the engine; callers treat capacity near expiry as a
// don't-care).
func (m *Model) Count(l *MLoc) int { return len(l.Items) }

func (m *Model) CountLive(l *MLoc) int {
	n := 0
	for _, it := range l.Items {
		if m.Live(it) {
			n++
		}
	}
	return n
}

// AddFact models Location.AddFact.  It returns the id ("" with generated=true
// when the engine must invent one; the caller then calls Adopt).
func (m *Model) AddFact(loc, id string, body map[string]interface{}, p Prot) (string, *Item, bool, error) {
	l := m.Loc(loc)
	if !m.CanWrite(l, p) {
		return "", nil, false, refuse("write not allowed")
	}
	if !m.Enabled(l) {
		return "", nil, false, refuse("location disabled")
	}
	it, gen, err := m.prepare(id, body)
	if err != nil {
		return "", nil, false, err
	}
	m.Purge(l)
	if !gen {
		l.Items[it.Id] = it
		m.noteWrite(l, it)
	}
	return it.Id, it, gen, nil
}

// Adopt stores an item under the id the engine generated.
func (m *Model) Adopt(loc string, it *Item, id string) {
	it.Id = id
	m.Loc(loc).Items[id] = it
	m.noteWrite(m.Loc(loc), it)
}

// ValidRule is the model's notion of a well-formed rule body: exactly one of
// when/schedule and at least one action.
func ValidRule(rule map[string]interface{}) bool {
	_, w := rule["when"]
	s, hs := rule["schedule"]
	if hs {
		if ss, ok := s.(string); !ok || ss == "" {
			hs = false
		}
	}
	if w == hs {
		return false
	}
	_, a := rule["action"]
	as, aa := rule["actions"]
	if a && aa {
		return false
	}
	if aa {
		l, ok := as.([]interface{})
		return ok && len(l) > 0
	}
	return a
}

func (m *Model) AddRule(loc, id string, rule map[string]interface{}, p Prot) (string, *Item, bool, error) {
	l := m.Loc(loc)
	if !m.Enabled(l) {
		return "", nil, false, refuse("location disabled")
	}
	if !m.CanWrite(l, p) {
		return "", nil, false, refuse("write not allowed")
	}
	if !ValidRule(rule) {
		return "", nil, false, refuse("invalid rule")
	}
	r := CloneMap(rule)
	// expiry given inside the rule applies to the rule as an item
	tmp := map[string]interface{}{}
	if v, ok := r["ttl"]; ok {
		tmp["ttl"] = v
		delete(r, "ttl")
	}
	if v, ok := r["expires"]; ok {
		tmp["expires"] = v
	}
	wrapper := map[string]interface{}{"rule": r}
	for k, v := range tmp {
		wrapper[k] = v
	}
	if dw, ok := r["deleteWith"]; ok {
		wrapper["deleteWith"] = dw
	}
	it, gen, err := m.prepare(id, wrapper)
	if err != nil {
		return "", nil, false, err
	}
	m.Purge(l)
	if !gen {
		l.Items[it.Id] = it
		m.noteWrite(l, it)
	}
	return it.Id, it, gen, nil
}

// Rem removes id and, transitively, everything that names a removed id in
// deleteWith.  It returns the removed ids.
func (m *Model) rem(l *MLoc, id string) []string {
	if _, ok := l.Items[id]; !ok {
		return nil
	}
	return m.cascade(l, id)
}

// CascadeFrom removes the transitive dependents of id whether or not id
// exists (used only to follow the engine through a known finding).
func (m *Model) CascadeFrom(loc, id string) []string {
	l := m.Loc(loc)
	was := map[string]map[string]bool{}
	for k, by := range m.unc(l) {
		was[k] = by
	}
	removed := m.cascade(l, id)
	for _, r := range removed {
		if by, unc := was[r]; unc {
			// its content in the engine is unknown (a write to it failed or
			// was interrupted), so whether the engine's copy names id is too
			m.markUnc(l, r, by)
			continue
		}
		delete(m.unc(l), r)
	}
	return removed
}

func (m *Model) cascade(l *MLoc, id string) []string {
	var removed []string
	queue := []string{id}
	if _, ok := l.Items[id]; ok {
		delete(l.Items, id)
		removed = append(removed, id)
	}
	for len(queue) > 0 {
		cur := queue[0]
		queue = queue[1:]
		for _, oid := range sortedItemIds(l) {
			o := l.Items[oid]
			if o == nil {
				continue
			}
			if namesIn(o.Body["deleteWith"], cur) {
				delete(l.Items, oid)
				removed = append(removed, oid)
				queue = append(queue, oid)
			}
		}
	}
	return removed
}

func namesIn(dw interface{}, id string) bool {
	xs, ok := dw.([]interface{})
	if !ok {
		return false
	}
	for _, x := range xs {
		if s, ok := x.(string); ok && s == id {
			return true
		}
	}
	return false
}

// Dependents returns the transitive deleteWith closure of id (excluding id).
func (m *Model) Dependents(l *MLoc, id string) map[string]bool {
	out := map[string]bool{}
	queue := []string{id}
	for len(queue) > 0 {
		cur := queue[0]
		queue = queue[1:]
		for oid, o := range l.Items {
			if oid != id && !out[oid] && namesIn(o.Body["deleteWith"], cur) {
				out[oid] = true
				queue = append(queue, oid)
			}
		}
	}
	return out
}

func sortedItemIds(l *MLoc) []string {
	ids := make([]string, 0, len(l.Items))
	for id := range l.Items {
		ids = append(ids, id)
	}
	sort.Strings(ids)
	return ids
}

// RemFact models Location.RemFact / RemRule.  The result for an id that does
// not exist is a don't-care (exists=false).
func (m *Model) RemFact(loc, id string, p Prot) (exists bool, removed []string, err error) {
	l := m.Loc(loc)
	if !m.Enabled(l) {
		return false, nil, refuse("location disabled")
	}
	if !m.CanWrite(l, p) {
		return false, nil, refuse("write not allowed")
	}
	m.Purge(l)
	_, exists = l.Items[id]
	faulted := m.unc(l)[id]["+fault"]
	// Whatever the model removes *through* an item whose content is unknown
	// (a write to it failed or was interrupted) is not known to be removed:
	// the engine's copy of that item may not name what the model's copy names.
	viaFault := map[string]bool{}
	for u, by := range m.unc(l) {
		if by["+fault"] {
			for d := range m.Dependents(l, u) {
				viaFault[d] = true
			}
		}
	}
	removed = m.rem(l, id)
	for _, r := range removed {
		if viaFault[r] && r != id {
			m.markUnc(l, r, map[string]bool{"+fault": true})
			continue
		}
		if m.unc(l)[r]["+fault"] {
			// a removal does not settle an id left unknown by a failed or
			// interrupted operation (the engine may find nothing in memory
			// and leave storage as it is); only a successful add does
			continue
		}
		delete(m.unc(l), r)
	}
	if !faulted {
		delete(m.unc(l), id)
	}
	// An item whose content is unknown (a write to it failed or was
	// interrupted) may name the removed ids in deleteWith; if it does it went
	// too, and so did whatever names it.  Everything that (transitively)
	// depends on such an item becomes a don't-care.
	for u, by := range m.unc(l) {
		if by["+fault"] {
			for d := range m.Dependents(l, u) {
				m.markUnc(l, d, map[string]bool{"+fault": true})
			}
		}
	}
	return exists, removed, nil
}

// Purge removes every expired item together with its dependents.  The model
// purges eagerly; the purged item becomes "pending" and its live dependents
// become uncertain until the engine is known to have observed the item.
func (m *Model) Purge(l *MLoc) {
	for {
		// everything that has run out by now
		var expired []string
		isExpired := map[string]bool{}
		for _, id := range sortedItemIds(l) {
			if it := l.Items[id]; it != nil && !m.Live(it) {
				expired = append(expired, id)
				isExpired[id] = true
			}
		}
		if len(expired) == 0 {
			return
		}
		for _, id := range expired {
			if l.Items[id] == nil {
				continue // went as a dependent of another expired item
			}
			removed := m.rem(l, id)
			m.pend(l)[id] = true
			// The engine purges an expired item, and cascades from it, when it
			// observes that item; its cascade does not pass through another item
			// that has expired but has not been observed yet (a search for
			// dependents does not return expired items).  So what went here is
			// certain only once every expired item on its way has been observed.
			by := map[string]bool{id: true}
			for _, d := range removed {
				if isExpired[d] {
					by[d] = true
				}
			}
			for _, d := range removed {
				if d == id {
					continue
				}
				if isExpired[d] {
					m.pend(l)[d] = true
				} else {
					m.markUnc(l, d, by)
				}
			}
		}
	}
}

// Get models GetFact.
func (m *Model) Get(loc, id string, p Prot) (*Item, error) {
	l := m.Loc(loc)
	if !m.Enabled(l) {
		return nil, refuse("location disabled")
	}
	if !m.CanRead(l, p) {
		return nil, refuse("read not allowed")
	}
	it, ok := l.Items[id]
	if !ok || !m.Live(it) {
		return nil, refuse("not found")
	}
	return it, nil
}

// Ancestors returns loc and its transitive parents (parents first, depth
// first, as the manual describes), or an error for a loop / unknown parent.
func (m *Model) Ancestors(loc string) ([]string, error) {
	names, _, err := m.AncestorPaths(loc)
	return names, err
}

// AncestorPaths returns the location and its transitive parents (each once,
// parents first) and the set of those reached along more than one path.
// What an ancestor reached along two paths contributes to an inherited
// result is not judged (its facts appear once per path, its matching rules
// are a duplicate-id error); the callers turn a contribution from such an
// ancestor into a don't-care and judge everything else.
func (m *Model) AncestorPaths(loc string) ([]string, map[string]bool, error) {
	var out []string
	var walk func(name string, stack map[string]bool) error
	walk = func(name string, stack map[string]bool) error {
		if stack[name] {
			return refuse("ancestor loop")
		}
		stack[name] = true
		defer delete(stack, name)
		l, ok := m.Locs[name]
		if !ok {
			if name != loc {
				return refuse("unknown location %s", name)
			}
			l = m.Loc(name)
		}
		for _, p := range m.Parents(l) {
			if err := walk(p, stack); err != nil {
				return err
			}
		}
		out = append(out, name)
		return nil
	}
	err := walk(loc, map[string]bool{})
	if err != nil {
		return out, nil, err
	}
	seen := map[string]bool{}
	multi := map[string]bool{}
	var uniq []string
	for _, n := range out {
		if seen[n] {
			multi[n] = true
			continue
		}
		seen[n] = true
		uniq = append(uniq, n)
	}
	return uniq, multi, nil
}

var errDiamond = refuse("dontcare: diamond ancestry")

// DontCare reports whether a model refusal means "the statements leave this open".
func DontCare(err error) bool {
	me, ok := err.(*ErrModel)
	return ok && (strings.HasPrefix(me.Why, "matcher:") || strings.HasPrefix(me.Why, "dontcare:"))
}

func (m *Model) Parents(l *MLoc) []string {
	it, ok := l.Items[PropId("", "parents")]
	if !ok || !m.Live(it) {
		return nil
	}
	xs, _ := it.Body["!parents"].([]interface{})
	var out []string
	for _, x := range xs {
		if s, ok := x.(string); ok {
			out = append(out, s)
		}
	}
	return out
}

// Found is one search answer.
type Found struct {
	Id  string
	Bss []string // canonical bindings
}

var matchCtx = (*core.Context)(nil)

// MatchBindings applies the real matcher and canonicalises the bindings.
func MatchBindings(pattern, data map[string]interface{}) ([]string, error) {
	bss, err := core.Matches(matchCtx, CloneMap(pattern), CloneMap(data))
	if err != nil {
		return nil, err
	}
	out := make([]string, 0, len(bss))
	for _, bs := range bss {
		out = append(out, CanonSet(map[string]interface{}(bs)))
	}
	sort.Strings(out)
	return out, nil
}

// Search models SearchFacts: id -> multiset of bindings.  matchErr is set
// when the matcher itself refuses the pattern (then any error is expected).
func (m *Model) Search(loc string, pattern map[string]interface{}, inherited bool, p Prot) (map[string][]string, error) {
	names := []string{loc}
	var multi map[string]bool
	if inherited {
		var err error
		names, multi, err = m.AncestorPaths(loc)
		if err != nil {
			return nil, err
		}
	}
	out := map[string][]string{}
	for _, n := range names {
		l := m.Loc(n)
		if !m.Enabled(l) {
			return nil, refuse("location disabled")
		}
		if !m.CanRead(l, p) {
			return nil, refuse("read not allowed")
		}
		for _, id := range sortedItemIds(l) {
			it := l.Items[id]
			if !m.Live(it) {
				continue
			}
			bss, err := MatchBindings(pattern, it.Body)
			if err != nil {
				return nil, refuse("matcher: %v", err)
			}
			if len(bss) > 0 {
				if multi[n] {
					return nil, errDiamond
				}
				out[id] = append(out[id], bss...)
				sort.Strings(out[id])
			}
		}
	}
	return out, nil
}

// RuleOf returns the rule body of an item, if it is a rule.
func RuleOf(it *Item) map[string]interface{} {
	r, _ := it.Body["rule"].(map[string]interface{})
	return r
}

// WhenPattern returns the event pattern of a rule body (explicit
// {"pattern":…} or the `when` map itself).
func WhenPattern(rule map[string]interface{}) (map[string]interface{}, bool) {
	w, ok := rule["when"].(map[string]interface{})
	if !ok {
		return nil, false
	}
	if p, ok := w["pattern"]; ok {
		pm, ok := p.(map[string]interface{})
		return pm, ok
	}
	return w, true
}

func (m *Model) RuleDisabled(l *MLoc, id string) bool {
	it, ok := l.Items[PropId(id, "disabled")]
	if !ok || !m.Live(it) {
		return false
	}
	b, _ := it.Body["!disabled"].(bool)
	return b
}

// Dispatch models rule dispatch for an event: ruleId -> multiset of bindings.
func (m *Model) Dispatch(loc string, event map[string]interface{}, p Prot) (map[string][]string, error) {
	return m.dispatch(loc, event, p, true, true)
}

// SearchRules models Location.SearchRules: like Dispatch but the disabled
// flag is not consulted.
func (m *Model) SearchRules(loc string, event map[string]interface{}, inherited bool, p Prot) (map[string][]string, error) {
	return m.dispatch(loc, event, p, false, inherited)
}

func (m *Model) dispatch(loc string, event map[string]interface{}, p Prot, honourDisabled, inherited bool) (map[string][]string, error) {
	names := []string{loc}
	var multi map[string]bool
	if inherited {
		var err error
		names, multi, err = m.AncestorPaths(loc)
		if err != nil {
			return nil, err
		}
	}
	self := m.Loc(loc)
	out := map[string][]string{}
	if tid, has := event["trigger!"]; has && honourDisabled {
		// An event that names a rule: only that rule of this very location
		// is fetched (like GetRule: the location must be enabled and
		// readable, the rule must exist), its disabled flag is honoured,
		// and its `when`, if it has one, must still match the event.
		id, ok := tid.(string)
		if !ok {
			return nil, refuse("trigger! is not a string")
		}
		if !m.Enabled(self) {
			return nil, refuse("location disabled")
		}
		if !m.CanRead(self, p) {
			return nil, refuse("read not allowed")
		}
		it, ok := self.Items[id]
		if !ok || !m.Live(it) || RuleOf(it) == nil {
			return nil, refuse("no rule %s to trigger", id)
		}
		if m.RuleDisabled(self, id) {
			return out, nil
		}
		r := RuleOf(it)
		if _, hasWhen := r["when"]; !hasWhen {
			out[id] = []string{"{}"}
			return out, nil
		}
		pat, ok := WhenPattern(r)
		if !ok {
			return out, nil
		}
		bss, err := MatchBindings(pat, event)
		if err != nil {
			return nil, refuse("matcher: %v", err)
		}
		if len(bss) > 0 {
			out[id] = bss
		}
		return out, nil
	}
	for _, n := range names {
		l := m.Loc(n)
		if !m.Enabled(l) {
			return nil, refuse("location disabled")
		}
		if !m.CanRead(l, p) {
			return nil, refuse("read not allowed")
		}
		if multi[n] && len(m.unc(l)) > 0 {
			// an ancestor reached twice that may hold a rule the model does not
			// know of (an add cut short by a fault, say): the engine reports a
			// duplicate id for any candidate rule of such an ancestor
			return nil, errDiamond
		}
		for _, id := range sortedItemIds(l) {
			it := l.Items[id]
			if !m.Live(it) {
				continue
			}
			r := RuleOf(it)
			if r == nil {
				continue
			}
			if _, sched := r["schedule"]; sched {
				continue
			}
			pat, ok := WhenPattern(r)
			if !ok {
				continue
			}
			if multi[n] {
				// The engine collects the *candidate* rules of every ancestor it
				// visits (by index on one state, all rules on the other) and
				// reports a duplicate id before it matches anything: any rule in
				// an ancestor reached twice may or may not be such a candidate.
				return nil, errDiamond
			}
			bss, err := MatchBindings(pat, event)
			if err != nil {
				if honourDisabled && m.RuleDisabled(self, id) {
					continue
				}
				return nil, refuse("matcher: %v", err)
			}
			if honourDisabled && m.RuleDisabled(self, id) {
				continue
			}
			if len(bss) > 0 {
				if _, dup := out[id]; dup {
					return nil, refuse("duplicate rule id %s", id)
				}
				out[id] = bss
			}
		}
	}
	return out, nil
}

// Snapshot renders the observable content of a location (live items only).
func (m *Model) Snapshot(loc string) map[string]string {
	l := m.Loc(loc)
	out := map[string]string{}
	for id, it := range l.Items {
		if m.Live(it) {
			out[id] = Canon(it.Body)
		}
	}
	return out
}

// StateKey is a compact canonical description of the model state, used to
// count distinct states reached.
func (m *Model) StateKey() string {
	var b strings.Builder
	names := make([]string, 0, len(m.Locs))
	for n := range m.Locs {
		names = append(names, n)
	}
	sort.Strings(names)
	for _, n := range names {
		l := m.Locs[n]
		fmt.Fprintf(&b, "%s{", n)
		for _, id := range sortedItemIds(l) {
			it := l.Items[id]
			fmt.Fprintf(&b, "%s=%s@%d;", id, Sha(Canon(it.Body)), it.Expires)
		}
		b.WriteString("}")
	}
	return b.String()
}

func (m *Model) WriteKeyOf(l *MLoc) string { return m.propString(l, "writeKey") }
func (m *Model) ReadKeyOf(l *MLoc) string  { return m.propString(l, "readKey") }

// PurgeAll purges expired items in every location (to be called before any
// observation is judged, so that uncertainty marks are current).
func (m *Model) PurgeAll() {
	names := make([]string, 0, len(m.Locs))
	for n := range m.Locs {
		names = append(names, n)
	}
	sort.Strings(names)
	for _, n := range names {
		m.Purge(m.Locs[n])
	}
}

// Clone deep-copies the model (same clock).
func (m *Model) Clone() *Model {
	n := NewModel(m.Now)
	n.IdInject, n.MaxFacts = m.IdInject, m.MaxFacts
	for name, l := range m.Locs {
		nl := &MLoc{Name: name, Items: map[string]*Item{}, ReadOnly: l.ReadOnly}
		for id, it := range l.Items {
			nl.Items[id] = &Item{Id: it.Id, Body: CloneMap(it.Body), Expires: it.Expires}
		}
		n.Locs[name] = nl
	}
	for name, p := range m.Pending {
		n.Pending[name] = map[string]bool{}
		for k, v := range p {
			n.Pending[name][k] = v
		}
	}
	for name, u := range m.UncBy {
		n.UncBy[name] = map[string]map[string]bool{}
		for id, by := range u {
			n.UncBy[name][id] = map[string]bool{}
			for k, v := range by {
				n.UncBy[name][id][k] = v
			}
		}
	}
	return n
}

// MarkFault makes the presence and content of id a don't-care until it is
// written or removed again (an operation that named it failed or was
// interrupted half-way).
func (m *Model) MarkFault(loc, id string) {
	m.markUnc(m.Loc(loc), id, map[string]bool{"+fault": true})
}

// FaultPendingPurges is called after a crash: the engine may have been in the
// middle of purging an expired item (any request that comes across one does
// that, a read included) - the item itself gone from storage, its dependents
// not yet.  Observing the item later settles nothing then, so whatever was
// waiting for the purge of a pending item stays a don't-care for good.
func (m *Model) FaultPendingPurges() {
	for ln, l := range m.Locs {
		m.Purge(l)
		pend := m.Pending[ln]
		if len(pend) == 0 {
			continue
		}
		for d, by := range m.unc(l) {
			for k := range by {
				if pend[k] {
					m.MarkFault(ln, d)
					break
				}
			}
		}
	}
}

// ItemKey renders an item for old/new comparison ("" = absent).
func (m *Model) ItemKey(loc, id string) string {
	it, ok := m.Loc(loc).Items[id]
	if !ok || !m.Live(it) {
		return ""
	}
	return CanonSet(it.Body)
}

// SetPropRaw models the low-level property write (SetProp on the state): no
// enablement or key checks, the item is {"id":target,"!prop":val,"deleteWith":[target]}.
func (m *Model) SetPropRaw(loc, target, prop string, val interface{}) {
	l := m.Loc(loc)
	m.Purge(l)
	it, _, err := m.prepare("", map[string]interface{}{"id": target, "!" + prop: Clone(val), "deleteWith": []interface{}{target}})
	if err != nil {
		return
	}
	l.Items[it.Id] = it
	m.noteWrite(l, it)
}

// RemRaw removes an item and its dependents without any check.
func (m *Model) RemRaw(loc, id string) {
	l := m.Loc(loc)
	m.Purge(l)
	for _, r := range m.rem(l, id) {
		if !m.unc(l)[r]["+fault"] {
			delete(m.unc(l), r)
		}
	}
	if !m.unc(l)[id]["+fault"] {
		delete(m.unc(l), id)
	}
}

// ---- query evaluation (C03) ---------------------------------------------------

// CodeTerm is the closed family of `code` scripts the generator emits; the
// model evaluates them natively.
//   {"t":"const","v":<json>}          script: the literal (true/false/null/0/1/"s")
//   {"t":"eq","var":"v1","v":<json>}  script: v1 == <literal>
//   {"t":"var","var":"v1"}            script: v1
//   {"t":"obj","k":"w1","v":<json>}   script: ({w1: <literal>})   (adds ?w1)
func CodeScript(term map[string]interface{}) string {
	lit := func(v interface{}) string { return Canon(v) }
	switch term["t"] {
	case "const":
		return lit(term["v"])
	case "eq":
		return fmt.Sprintf("%s == %s", term["var"], lit(term["v"]))
	case "var":
		return fmt.Sprintf("%s", term["var"])
	case "obj":
		return fmt.Sprintf("({%s: %s})", term["k"], lit(term["v"]))
	}
	return "null"
}

// evalCode returns (keep, extra bindings, ok); ok=false: the script would
// fail (unbound variable) and the whole query errors.
func evalCode(term map[string]interface{}, bs map[string]interface{}) (bool, map[string]interface{}, bool) {
	truthy := func(v interface{}) bool {
		if v == nil {
			return false
		}
		if b, ok := v.(bool); ok {
			return b
		}
		return true // any other non-null value keeps the binding
	}
	switch term["t"] {
	case "const":
		return truthy(term["v"]), nil, true
	case "eq":
		v, bound := bs["?"+term["var"].(string)]
		if !bound {
			return false, nil, false
		}
		return Canon(v) == Canon(term["v"]), nil, true
	case "var":
		v, bound := bs["?"+term["var"].(string)]
		if !bound {
			return false, nil, false
		}
		if m, isMap := v.(map[string]interface{}); isMap {
			// an object result extends the binding with its fields
			extra := map[string]interface{}{}
			for k, x := range m {
				extra["?"+k] = x
			}
			return true, extra, true
		}
		return truthy(v), nil, true
	case "obj":
		return true, map[string]interface{}{"?" + term["k"].(string): term["v"]}, true
	}
	return false, nil, true
}

func substitute(p interface{}, bs map[string]interface{}) interface{} {
	switch x := p.(type) {
	case string:
		if len(x) > 0 && x[0] == '?' {
			if v, ok := bs[x]; ok {
				return Clone(v)
			}
		}
		return x
	case map[string]interface{}:
		out := map[string]interface{}{}
		for k, v := range x {
			out[k] = substitute(v, bs)
		}
		return out
	case []interface{}:
		out := make([]interface{}, len(x))
		for i, v := range x {
			out[i] = substitute(v, bs)
		}
		return out
	}
	return p
}

// EvalQuery is the compositional semantics of queries over the model's facts
// (local and inherited).  Code terms appear as {"code": <script>, "term": {...}}.
func (m *Model) EvalQuery(loc string, q map[string]interface{}, in []map[string]interface{}, p Prot) ([]map[string]interface{}, error) {
	if len(q) == 0 {
		return in, nil
	}
	if _, ok := q["code"]; ok {
		term, _ := q["term"].(map[string]interface{})
		var out []map[string]interface{}
		for _, bs := range in {
			keep, extra, ok := evalCode(term, bs)
			if !ok {
				return nil, refuse("script fails: unbound variable")
			}
			if keep {
				nb := map[string]interface{}{}
				for k, v := range bs {
					nb[k] = v
				}
				for k, v := range extra {
					nb[k] = v
				}
				out = append(out, nb)
			}
		}
		return out, nil
	}
	if pat, ok := q["pattern"]; ok {
		pm, ok := pat.(map[string]interface{})
		if !ok {
			return nil, refuse("pattern is not a map")
		}
		var out []map[string]interface{}
		for _, bs := range in {
			bound := substitute(pm, bs).(map[string]interface{})
			names, multi, err := m.AncestorPaths(loc)
			if err != nil {
				return nil, err
			}
			for _, n := range names {
				l := m.Loc(n)
				if !m.Enabled(l) {
					return nil, refuse("location disabled")
				}
				if !m.CanRead(l, p) {
					return nil, refuse("read not allowed")
				}
				for _, id := range sortedItemIds(l) {
					it := l.Items[id]
					if !m.Live(it) {
						continue
					}
					bss, err := core.Matches(matchCtx, CloneMap(bound), CloneMap(it.Body))
					if err != nil {
						return nil, refuse("matcher: %v", err)
					}
					if len(bss) > 0 && multi[n] {
						return nil, errDiamond
					}
					for _, more := range bss {
						nb := map[string]interface{}{}
						for k, v := range bs {
							nb[k] = v
						}
						for k, v := range more {
							nb[k] = v
						}
						out = append(out, nb)
					}
				}
			}
		}
		return out, nil
	}
	if xs, ok := q["and"]; ok {
		qs, ok := xs.([]interface{})
		if !ok {
			return nil, refuse("and needs an array")
		}
		cur := in
		for _, sub := range qs {
			sm, ok := sub.(map[string]interface{})
			if !ok {
				return nil, refuse("subquery is not a map")
			}
			var err error
			cur, err = m.EvalQuery(loc, sm, cur, p)
			if err != nil {
				return nil, err
			}
		}
		return cur, nil
	}
	if xs, ok := q["or"]; ok {
		qs, ok := xs.([]interface{})
		if !ok {
			return nil, refuse("or needs an array")
		}
		sc, _ := q["shortCircuit"].(bool)
		var out []map[string]interface{}
		for _, bs := range in {
			for _, sub := range qs {
				sm, ok := sub.(map[string]interface{})
				if !ok {
					return nil, refuse("subquery is not a map")
				}
				more, err := m.EvalQuery(loc, sm, []map[string]interface{}{bs}, p)
				if err != nil {
					return nil, err
				}
				out = append(out, more...)
				if sc && len(more) > 0 {
					break
				}
			}
		}
		return out, nil
	}
	if x, ok := q["not"]; ok {
		sm, ok := x.(map[string]interface{})
		if !ok {
			return nil, refuse("not needs a map")
		}
		var out []map[string]interface{}
		for _, bs := range in {
			more, err := m.EvalQuery(loc, sm, []map[string]interface{}{bs}, p)
			if err != nil {
				return nil, err
			}
			if len(more) == 0 {
				out = append(out, bs)
			}
		}
		return out, nil
	}
	return nil, refuse("unknown query form")
}

// StripTerms removes the model-only "term" annotations from a query tree,
// giving the JSON the engine receives.
func StripTerms(q interface{}) interface{} {
	switch x := q.(type) {
	case map[string]interface{}:
		out := map[string]interface{}{}
		for k, v := range x {
			if k == "term" {
				continue
			}
			out[k] = StripTerms(v)
		}
		return out
	case []interface{}:
		out := make([]interface{}, len(x))
		for i, v := range x {
			out[i] = StripTerms(v)
		}
		return out
	}
	return q
}
