package h

import (
	"bufio"
	"encoding/json"
	"fmt"
	"os"
	"runtime/debug"
	"sort"
	"strconv"
	"strings"
	"testing"
	"time"
)

// World is one simulated world serving a property.
type World struct {
	Prop string
	Name string
	// Share is the relative share of a property's runs given to this world.
	Share int
	// Gen builds the plan of run idx from the run's stream alone.
	Gen func(r *Rng, tier string, idx int) *Plan
	// Exec executes a plan deterministically and judges it.
	Exec func(t *testing.T, p *Plan, trace bool) *Result
	// Runs is the target number of runs per tier for this world (0: use Share).
	Runs map[string]int
	// Enumerated: when >0 the first Enumerated indexes form a finite matrix
	// that is covered completely in every tier.
	Enumerated func(tier string) int
	// JournalPlans makes the worker write each plan to disk before running it,
	// so that a worker death can be turned into a replayable violation.
	JournalPlans bool
}

var Worlds = map[string][]*World{}

func Register(w *World) { Worlds[w.Prop] = append(Worlds[w.Prop], w) }

// Known is one line of known_findings.jsonl.
type Known struct {
	Property string `json:"property"`
	Class    string `json:"class"`
	Sig      string `json:"sig"`
	What     string `json:"what"`
	Status   string `json:"status"` // open | fixed
	// AnyProperty: the same defect is met (and tolerated) while checking other
	// properties whose worlds exercise the same code.
	AnyProperty bool   `json:"any_property,omitempty"`
	Commit      string `json:"commit,omitempty"`
}

func LoadKnown(path string) []Known {
	f, err := os.Open(path)
	if err != nil {
		return nil
	}
	defer f.Close()
	var out []Known
	sc := bufio.NewScanner(f)
	sc.Buffer(make([]byte, 1<<20), 1<<20)
	for sc.Scan() {
		line := strings.TrimSpace(sc.Text())
		if line == "" || strings.HasPrefix(line, "#") {
			continue
		}
		var k Known
		if json.Unmarshal([]byte(line), &k) == nil {
			out = append(out, k)
		}
	}
	return out
}

// KnownList is the process-wide list of known findings (loaded by the worker).
var KnownList []Known

func IsKnown(ks []Known, v *Violation) *Known {
	for i := range ks {
		k := &ks[i]
		if k.Status == "open" && (k.Property == v.Property || k.AnyProperty) && k.Class == v.Class && k.Sig == v.Sig {
			return k
		}
	}
	return nil
}

// Summary is what a worker shard reports to the orchestrator.
type Summary struct {
	Property    string                   `json:"property"`
	Tier        string                   `json:"tier"`
	Seed        uint64                   `json:"seed"`
	Shard       int                      `json:"shard"`
	Runs        int64                    `json:"runs"`
	RunsByWorld map[string]int64         `json:"runs_by_world"`
	Hashes      []string                 `json:"nontrivial_hashes"`
	Counters    map[string]int64         `json:"counters"`
	SimNanos    int64                    `json:"sim_nanos"`
	SimSeconds  float64                  `json:"sim_seconds"` // (the sum of nanoseconds overflows int64 after ~292 simulated years)
	WallS       float64                  `json:"wall_s"`
	Violations  []SummaryViolation       `json:"violations"`
	KnownSeen   map[string]int64         `json:"known_seen"`
	Samples     []map[string]interface{} `json:"samples"`
	Completed   bool                     `json:"completed"`
	Exhaustive  map[string]bool          `json:"exhaustive,omitempty"`
	Note        string                   `json:"note,omitempty"`
	// Digests (determinism self-test): one digest per run of what the run
	// observed (non-trivial keys, counters, verdict), keyed world/idx.
	Digests map[string]string `json:"digests,omitempty"`
}

type SummaryViolation struct {
	Replay    string     `json:"replay"`
	Violation *Violation `json:"violation"`
}

func envInt(k string, def int) int {
	if v := os.Getenv(k); v != "" {
		if n, err := strconv.Atoi(v); err == nil {
			return n
		}
	}
	return def
}

func envU64(k string, def uint64) uint64 {
	if v := os.Getenv(k); v != "" {
		if n, err := strconv.ParseUint(v, 10, 64); err == nil {
			return n
		}
		if n, err := strconv.ParseInt(v, 10, 64); err == nil {
			return uint64(n)
		}
	}
	return def
}

// worldPlan describes how many runs each world of a property gets.
func worldRuns(ws []*World, tier string, total int) []int {
	out := make([]int, len(ws))
	shares := 0
	fixed := 0
	for i, w := range ws {
		if n, ok := w.Runs[tier]; ok && n > 0 {
			out[i] = n
			fixed += n
		} else {
			s := w.Share
			if s == 0 {
				s = 1
			}
			shares += s
		}
	}
	rest := total - fixed
	if rest < 0 {
		rest = 0
	}
	for i, w := range ws {
		if out[i] == 0 {
			s := w.Share
			if s == 0 {
				s = 1
			}
			if shares > 0 {
				out[i] = rest * s / shares
			}
			if out[i] < 1 {
				out[i] = 1
			}
		}
	}
	return out
}

// RunWorker is the body of the worker test: it runs this shard's share of
// the property's runs and writes a Summary.
func RunWorker(t *testing.T) {
	prop := os.Getenv("VERIF_PROP")
	if prop == "" {
		t.Skip("VERIF_PROP not set")
	}
	// runaway recursion must die in milliseconds, not at the default 1 GB
	debug.SetMaxStack(envInt("VERIF_MAX_STACK_MB", 48) << 20)
	RaceLogInit()
	ws := Worlds[prop]
	if len(ws) == 0 {
		fmt.Fprintf(os.Stderr, "HARNESS: no world for %s\n", prop)
		os.Exit(2)
	}
	if rp := os.Getenv("VERIF_REPLAY"); rp != "" {
		KnownList = LoadKnown(os.Getenv("VERIF_KNOWN"))
		replayMain(t, rp)
		return
	}
	tier := os.Getenv("VERIF_TIER")
	if tier == "" {
		tier = "quick"
	}
	base := envU64("VERIF_SEED", 1)
	shard := envInt("VERIF_SHARD", 0)
	nshards := envInt("VERIF_NSHARDS", 1)
	total := envInt("VERIF_RUNS", 1000)
	budget := time.Duration(envInt("VERIF_BUDGET_S", 60)) * time.Second
	out := os.Getenv("VERIF_OUT")
	replayDir := os.Getenv("VERIF_REPLAY_DIR")
	if replayDir == "" {
		replayDir = "/verif/replays"
	}
	known := LoadKnown(os.Getenv("VERIF_KNOWN"))
	KnownList = known
	journal := os.Getenv("VERIF_JOURNAL")
	onlyWorld := os.Getenv("VERIF_WORLD")
	onlyIdx := envInt("VERIF_ONLY_IDX", -1)
	maxViol := envInt("VERIF_MAX_VIOL", 3)
	journalPlans := os.Getenv("VERIF_JOURNAL_PLANS") != ""
	digests := os.Getenv("VERIF_DIGESTS") != ""
	resumeWorld, resumeIdx := "", -1
	if rs := os.Getenv("VERIF_RESUME"); rs != "" {
		if i := strings.LastIndex(rs, ":"); i > 0 {
			resumeWorld = rs[:i]
			resumeIdx, _ = strconv.Atoi(rs[i+1:])
		}
	}
	lastFlush := time.Now()

	sum := &Summary{Property: prop, Tier: tier, Seed: base, Shard: shard,
		Counters: map[string]int64{}, KnownSeen: map[string]int64{}, RunsByWorld: map[string]int64{},
		Exhaustive: map[string]bool{}}
	hashes := map[string]struct{}{}
	start := time.Now()
	deadline := start.Add(budget)
	seenSig := map[string]bool{}
	var jf *os.File
	if journal != "" {
		jf, _ = os.OpenFile(journal, os.O_CREATE|os.O_WRONLY|os.O_TRUNC, 0o644)
	}
	flush := func(completed bool) {
		sum.Completed = completed
		sum.WallS = time.Since(start).Seconds()
		sum.Hashes = sum.Hashes[:0]
		for k := range hashes {
			sum.Hashes = append(sum.Hashes, k)
		}
		sort.Strings(sum.Hashes)
		if out != "" {
			bs, _ := json.Marshal(sum)
			os.WriteFile(out+".tmp", bs, 0o644)
			os.Rename(out+".tmp", out)
		}
	}

	counts := worldRuns(ws, tier, total)
	timedOut := false
	skipping := resumeWorld != ""
	for wi, w := range ws {
		if onlyWorld != "" && w.Name != onlyWorld {
			continue
		}
		if ows := os.Getenv("VERIF_WORLDS"); ows != "" && !strings.Contains(","+ows+",", ","+w.Name+",") {
			continue
		}
		if skipping && w.Name != resumeWorld {
			continue
		}
		n := counts[wi]
		enum := 0
		if w.Enumerated != nil {
			enum = w.Enumerated(tier)
			if enum > n {
				n = enum
			}
		}
		// each world gets a slice of the wall budget proportional to its runs
		for idx := shard; idx < n; idx += nshards {
			if onlyIdx >= 0 && idx != onlyIdx {
				continue
			}
			if skipping {
				if idx <= resumeIdx {
					continue
				}
				skipping = false
			}
			if time.Since(lastFlush) > 2*time.Second {
				flush(false)
				lastFlush = time.Now()
			}
			if time.Now().After(deadline) && idx >= enum {
				timedOut = true
				break
			}
			runSeed := Mix(base, prop+"/"+w.Name, uint64(idx))
			plan := w.Gen(NewRng(runSeed), tier, idx).Clone()
			plan.Property = prop
			plan.World = w.Name
			plan.Seed = base
			plan.RunSeed = runSeed
			if jf != nil {
				fmt.Fprintf(jf, "run %s %d %d\n", w.Name, idx, runSeed)
				if w.JournalPlans || journalPlans {
					bs, _ := json.Marshal(plan)
					os.WriteFile(journal+".plan", bs, 0o644)
				}
			}
			res := execWorld(w, t, plan, os.Getenv("VERIF_TRACE") != "")
			if os.Getenv("VERIF_TRACE") != "" {
				for _, l := range res.Trace {
					fmt.Println("TRACE", l)
				}
				bs, _ := json.Marshal(plan.Cfg)
				fmt.Println("CFG", string(bs))
				for _, k := range res.Nontrivial {
					fmt.Println("NONTRIVIAL", k)
				}
				fmt.Println("COUNTERS", res.Counters, "VIOL", res.Viol)
			}
			if digests {
				vs := ""
				if res.Viol != nil {
					vs = res.Viol.Class + "|" + res.Viol.Sig + "|" + fmt.Sprint(res.Viol.OpIdx)
				}
				ck := make([]string, 0, len(res.Counters))
				for k, v := range res.Counters {
					if k == "storage_calls" || strings.HasPrefix(k, "inputs_") {
						// the number of storage calls of a cascade depends on Go's map
						// iteration order inside the engine (no observable effect)
						continue
					}
					ck = append(ck, fmt.Sprintf("%s=%d", k, v))
				}
				sort.Strings(ck)
				if sum.Digests == nil {
					sum.Digests = map[string]string{}
				}
				sum.Digests[fmt.Sprintf("%s/%d", w.Name, idx)] = Sha(strings.Join(res.Nontrivial, "\n") + "#" + strings.Join(ck, ",") + "#" + vs + "#" + fmt.Sprint(res.SimNanos))
			}
			sum.Runs++
			sum.RunsByWorld[w.Name]++
			sum.SimNanos += res.SimNanos
			sum.SimSeconds += float64(res.SimNanos) / 1e9
			for k, v := range res.Counters {
				sum.Counters[k] += v
			}
			for k, v := range res.Known {
				sum.KnownSeen[k] += v
			}
			for _, k := range res.Nontrivial {
				hashes[Sha(w.Name+"|"+k)] = struct{}{}
			}
			if len(sum.Samples) < 2 && (len(res.Nontrivial) > 0 || idx > n/2) && res.Viol == nil {
				sum.Samples = append(sum.Samples, map[string]interface{}{
					"world": w.Name, "run_seed": runSeed, "config": plan.Cfg, "ops": plan.Ops, "faults": plan.Faults, "tape": plan.Tape, "outcome": "held",
				})
			}
			if jf != nil {
				fmt.Fprintf(jf, "done %s %d\n", w.Name, idx)
			}
			if res.Viol == nil {
				continue
			}
			v := res.Viol
			v.Property = prop
			if res.PlanOverride != nil {
				plan = res.PlanOverride
				plan.Property, plan.World, plan.Seed, plan.RunSeed = prop, w.Name, base, runSeed
			}
			if k := IsKnown(known, v); k != nil {
				sum.KnownSeen[k.Class+" "+k.Sig]++
				continue
			}
			key := v.Class + "|" + v.Sig
			if seenSig[key] {
				sum.Counters["violations_duplicate_sig"]++
				continue
			}
			seenSig[key] = true
			// minimise, then write the replay file
			exec := func(p *Plan) *Result { return execWorld(w, t, p, false) }
			if v.Class == "data-race" {
				// The schedule of a plan is fixed, the detector's memory is not: its
				// shadow cells are few per word and replaced pseudo-randomly, so a
				// report can be missing from a re-execution of the very same
				// schedule.  A report is never spurious; a missing one is retried.
				exec = func(p *Plan) *Result {
					var r *Result
					for i := 0; i < 3; i++ {
						if r = execWorld(w, t, p, false); r.Viol != nil {
							break
						}
					}
					return r
				}
			}
			mp, mv, mruns := Minimise(plan, v, exec, envInt("VERIF_MIN_RUNS", 400), 25*time.Second)
			tr := execWorld(w, t, mp, true)
			if tr.Viol == nil || tr.Viol.Class != v.Class || tr.Viol.Sig != v.Sig {
				// minimised plan did not reproduce: keep the original plan
				mp, mv = plan, v
				tr = execWorld(w, t, mp, true)
				// (the race detector can miss a report it gave before - its shadow state
				// depends on which P a task wakes up on; the schedule itself is the same)
				for retry := 0; retry < 8 && v.Class == "data-race" && (tr.Viol == nil || tr.Viol.Class != v.Class); retry++ {
					sum.Counters["race_report_retries"]++
					tr = execWorld(w, t, mp, true)
				}
				if v.Class == "data-race" && (tr.Viol == nil || tr.Viol.Class != v.Class) {
					// the detector's report stands on its own (it lists both accesses)
					sum.Counters["race_report_not_repeated"]++
					tr.Viol = v
				}
				if tr.Viol == nil || tr.Viol.Class != v.Class {
					// The original does not reproduce either: harness nondeterminism.
					sum.Note += fmt.Sprintf("NONDETERMINISTIC run world=%s idx=%d seed=%d: %s; ", w.Name, idx, runSeed, v.Error())
					sum.Counters["nondeterministic_violation"]++
					continue
				}
			}
			mv.Property = prop
			rp := &Replay{Property: prop, Seed: base, RunSeed: runSeed, Plan: mp, Original: plan, Violation: mv, Trace: tr.Trace, MinRuns: mruns, RepoHead: os.Getenv("VERIF_REPO_HEAD")}
			path, err := WriteReplay(replayDir, rp)
			if err != nil {
				fmt.Fprintf(os.Stderr, "HARNESS: cannot write replay: %v\n", err)
				os.Exit(2)
			}
			sum.Violations = append(sum.Violations, SummaryViolation{Replay: path, Violation: mv})
			flush(false)
			if len(sum.Violations) >= maxViol {
				timedOut = true
				break
			}
		}
		skipping = false
		if !timedOut && enum > 0 {
			sum.Exhaustive[w.Name] = true
		}
		if timedOut {
			break
		}
	}
	flush(true)
	if RaceEnabled() {
		// package testing fails a test binary in which the detector reported
		// anything; the reports are this worker's findings, not its failure
		os.Exit(0)
	}
}

var raceTainted bool

// execWorld executes one plan.  In the race flavour, whatever the race
// detector reported while the plan ran is this plan's verdict (unless the
// world already found a violation: then the run was cut short and the
// reports are discarded with it).
func execWorld(w *World, t *testing.T, plan *Plan, trace bool) *Result {
	res := w.Exec(t, plan, trace)
	if !RaceEnabled() {
		return res
	}
	res.Count("race_detector_executions", 1)
	if raceTainted {
		// an earlier run of this process was abandoned mid-way (deadlock, livelock,
		// panic): its tasks never handed their state back, so reports that pair a
		// later access with one of theirs say nothing about rulio
		RaceLogDiscard()
		res.Count("race_oracle_off_after_abandoned_run", 1)
		return res
	}
	if res.Viol != nil {
		RaceLogDiscard()
		switch res.Viol.Class {
		case "deadlock", "livelock", "panic":
			raceTainted = true
		}
		return res
	}
	prefix := ""
	if st, ok := plan.Cfg["state"].(string); ok {
		prefix = st + ":"
	}
	if v := RaceVerdict(plan.Property, prefix); v != nil {
		res.Viol = v
	}
	return res
}

// replayMain re-executes the plan of a replay file and checks that it ends
// in the recorded violation.  Exit status: 1 reproduced (prints VIOLATION),
// 0 held (the recorded violation no longer occurs), 2 different outcome.
func replayMain(t *testing.T, path string) {
	rp, err := ReadReplay(path)
	if err != nil {
		fmt.Fprintf(os.Stderr, "HARNESS: %v\n", err)
		os.Exit(2)
	}
	var w *World
	for _, x := range Worlds[rp.Property] {
		if x.Name == rp.Plan.World || rp.Plan.World == "" {
			w = x
			break
		}
	}
	if w == nil {
		fmt.Fprintf(os.Stderr, "HARNESS: no world %q for %s\n", rp.Plan.World, rp.Property)
		os.Exit(2)
	}
	res := execWorld(w, t, rp.Plan, true)
	for i := 0; i < 12 && res.Viol == nil && rp.Violation != nil && rp.Violation.Class == "data-race"; i++ {
		// same schedule again: the detector's bounded shadow memory can miss a pair (see RunWorker)
		res = execWorld(w, t, rp.Plan, true)
	}
	for _, l := range res.Trace {
		fmt.Println("TRACE", l)
	}
	if res.Viol == nil {
		fmt.Printf("REPLAY property=%s held: recorded violation %s [%s] does not occur on this tree\n", rp.Property, rp.Violation.Class, rp.Violation.Sig)
		os.Exit(0)
	}
	res.Viol.Property = rp.Property
	fmt.Printf("REPLAY %s\n", res.Viol.Error())
	if res.Viol.Class == rp.Violation.Class && res.Viol.Sig == rp.Violation.Sig && res.Viol.OpIdx == rp.Violation.OpIdx {
		fmt.Printf("VIOLATION property=%s replay=%s\n", rp.Property, path)
		os.Exit(1)
	}
	fmt.Printf("REPLAY property=%s different outcome: recorded %s [%s] at op %d\n", rp.Property, rp.Violation.Class, rp.Violation.Sig, rp.Violation.OpIdx)
	os.Exit(3)
}
