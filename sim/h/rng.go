// Package h is the harness library shared by all simulated worlds: the
// seeded choice source, canonical JSON, plans, replay files, the minimiser,
// evidence accumulators and the worker loop.
package h

import (
	"hash/fnv"
)

// Rng is a SplitMix64 stream.  Every choice of a run (configuration, plan,
// faults, tape) is drawn from streams derived from the run seed.
type Rng struct{ s uint64 }

func NewRng(seed uint64) *Rng { return &Rng{s: seed} }

// (norace: the stream behind crypto/rand.Reader is drawn from by whichever task
// holds the token; it is harness state, serialised by the token, and must
// neither be reported nor add happens-before edges between tasks)
//
//go:norace
func (r *Rng) U64() uint64 {
	r.s += 0x9e3779b97f4a7c15
	z := r.s
	z = (z ^ (z >> 30)) * 0xbf58476d1ce4e5b9
	z = (z ^ (z >> 27)) * 0x94d049bb133111eb
	return z ^ (z >> 31)
}

// Fork derives an independent stream labelled by name.
func (r *Rng) Fork(name string) *Rng {
	h := fnv.New64a()
	h.Write([]byte(name))
	return &Rng{s: r.U64() ^ h.Sum64()}
}

func (r *Rng) Intn(n int) int {
	if n <= 0 {
		return 0
	}
	return int(r.U64() % uint64(n))
}

// Range returns an integer in [lo, hi].
func (r *Rng) Range(lo, hi int) int {
	if hi <= lo {
		return lo
	}
	return lo + r.Intn(hi-lo+1)
}

func (r *Rng) Bool() bool { return r.U64()&1 == 1 }

// P is true with probability num/den.
func (r *Rng) P(num, den int) bool { return r.Intn(den) < num }

func (r *Rng) Float() float64 { return float64(r.U64()>>11) / float64(1<<53) }

func (r *Rng) Pick(xs []string) string { return xs[r.Intn(len(xs))] }

func (r *Rng) Perm(n int) []int {
	p := make([]int, n)
	for i := range p {
		p[i] = i
	}
	for i := n - 1; i > 0; i-- {
		j := r.Intn(i + 1)
		p[i], p[j] = p[j], p[i]
	}
	return p
}

// Weighted picks an index according to integer weights.
func (r *Rng) Weighted(w []int) int {
	t := 0
	for _, x := range w {
		t += x
	}
	if t == 0 {
		return 0
	}
	k := r.Intn(t)
	for i, x := range w {
		if k < x {
			return i
		}
		k -= x
	}
	return len(w) - 1
}

// Mix combines a base seed with labels into a run seed.
func Mix(base uint64, label string, i uint64) uint64 {
	h := fnv.New64a()
	h.Write([]byte(label))
	r := NewRng(base ^ h.Sum64() ^ (i * 0x9e3779b97f4a7c15))
	r.U64()
	return r.U64()
}

func (r *Rng) PickAny(xs []interface{}) interface{} { return xs[r.Intn(len(xs))] }
