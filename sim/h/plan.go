package h

import (
	"encoding/json"
	"fmt"
	"os"
	"path/filepath"
	"time"
)

// Op is one step of a plan.  The meaning of the generic fields depends on K
// and on the world that executes the plan; unused fields stay zero and are
// omitted from replay files.
type Op struct {
	K   string      `json:"k"`
	Loc string      `json:"loc,omitempty"`
	Id  string      `json:"id,omitempty"`
	J   interface{} `json:"j,omitempty"`  // JSON body: fact, rule, pattern, event, query
	S   string      `json:"s,omitempty"`  // string argument
	N   int64       `json:"n,omitempty"`  // integer argument (durations: nanoseconds)
	B   bool        `json:"b,omitempty"`  // flag
	C   int         `json:"c,omitempty"`  // client / task index
	RK  string      `json:"rk,omitempty"` // caller's read key
	WK  string      `json:"wk,omitempty"` // caller's write key
	L   []string    `json:"l,omitempty"`  // list argument (parents …)
	Sub []Op        `json:"sub,omitempty"`
	Q   bool        `json:"q,omitempty"` // quiet: the world observes nothing after this step
}

func (o Op) Map() map[string]interface{} {
	if m, ok := o.J.(map[string]interface{}); ok {
		return CloneMap(m)
	}
	return nil
}

func (o Op) String() string {
	bs, _ := json.Marshal(o)
	return string(bs)
}

// Fault is one injected fault, addressed by the index of the seam call it hits.
type Fault struct {
	Kind string `json:"kind"`          // e.g. store-error-before, store-error-after, crash-before, crash-after, latency
	At   int64  `json:"at"`            // seam call index (storage call number, tick number …)
	N    int64  `json:"n,omitempty"`   // extra (latency ns …)
	S    string `json:"s,omitempty"`
}

// Tape holds the scheduling choices of a run.
type Tape struct {
	Seed     uint64  `json:"seed"`               // stream for successor choices and map orders
	Preempt  []int64 `json:"preempt,omitempty"`  // yield sequence numbers at which to pre-empt
	MapOrder string  `json:"map_order,omitempty"` // sorted | reversed | shuffled
}

// Plan is everything a run depends on besides the worker binary.
type Plan struct {
	Property string                 `json:"property"`
	Seed     uint64                 `json:"seed"`     // VERIF_SEED base
	RunSeed  uint64                 `json:"run_seed"` // derived; the plan was generated from this alone
	World    string                 `json:"world,omitempty"`
	Cfg      map[string]interface{} `json:"config"`
	Ops      []Op                   `json:"ops"`
	Faults   []Fault                `json:"faults,omitempty"`
	Tape     Tape                   `json:"tape"`
}

func (p *Plan) CfgS(k, def string) string {
	if v, ok := p.Cfg[k].(string); ok {
		return v
	}
	return def
}

func (p *Plan) CfgI(k string, def int64) int64 {
	switch v := p.Cfg[k].(type) {
	case float64:
		return int64(v)
	case int:
		return int64(v)
	case int64:
		return v
	}
	return def
}

func (p *Plan) CfgB(k string) bool {
	v, _ := p.Cfg[k].(bool)
	return v
}

func (p *Plan) Clone() *Plan {
	bs, _ := json.Marshal(p)
	var q Plan
	if err := json.Unmarshal(bs, &q); err != nil {
		panic(err)
	}
	return &q
}

// Violation is a property violation found by an oracle.
type Violation struct {
	Property string `json:"property"`
	// Class names the kind of disagreement (stable across seeds).
	Class string `json:"class"`
	// Sig is the specific signature used to match known findings: class plus
	// the input shape / call site / history kind that fails.
	Sig    string `json:"sig"`
	Detail string `json:"detail"`
	OpIdx  int    `json:"op_index"`
}

func (v *Violation) Error() string {
	return fmt.Sprintf("%s %s [%s] at op %d: %s", v.Property, v.Class, v.Sig, v.OpIdx, v.Detail)
}

// Result is what one execution of a plan reports.
type Result struct {
	Viol *Violation
	// Keys of distinct non-trivial cases this run reached (hashed by caller).
	Nontrivial []string
	SimNanos   int64
	Counters   map[string]int64
	Known      map[string]int64 // open known findings met (and tolerated) during the run
	// PlanOverride, when set together with Viol, is the plan that reproduces
	// the violation (a world that enumerates faults internally reports the
	// single-fault plan that failed).
	PlanOverride *Plan
	Trace      []string // tail of the event log (only kept when tracing)
}

func (r *Result) Count(k string, n int64) {
	if r.Counters == nil {
		r.Counters = map[string]int64{}
	}
	r.Counters[k] += n
}

// Replay is the on-disk replay file.
type Replay struct {
	Property  string     `json:"property"`
	Seed      uint64     `json:"seed"`
	RunSeed   uint64     `json:"run_seed"`
	Plan      *Plan      `json:"plan"`
	Original  *Plan      `json:"original_plan,omitempty"`
	Violation *Violation `json:"violation"`
	RepoHead  string     `json:"repo_head,omitempty"`
	Trace     []string   `json:"trace_tail,omitempty"`
	MinRuns   int        `json:"minimiser_executions"`
}

func WriteReplay(dir string, r *Replay) (string, error) {
	bs, err := json.MarshalIndent(r, "", " ")
	if err != nil {
		return "", err
	}
	d := filepath.Join(dir, r.Property)
	if err := os.MkdirAll(d, 0o755); err != nil {
		return "", err
	}
	name := filepath.Join(d, Sha(string(bs))+".json")
	return name, os.WriteFile(name, bs, 0o644)
}

func ReadReplay(path string) (*Replay, error) {
	bs, err := os.ReadFile(path)
	if err != nil {
		return nil, err
	}
	var r Replay
	if err := json.Unmarshal(bs, &r); err != nil {
		return nil, err
	}
	return &r, nil
}

// Minimise shrinks plan while exec keeps reporting a violation of the same
// class (and signature).  It delta-debugs the operation list, then drops
// faults and pre-emptions, within a budget of executions and wall time.
func Minimise(plan *Plan, v *Violation, exec func(*Plan) *Result, maxRuns int, maxWall time.Duration) (*Plan, *Violation, int) {
	start := time.Now()
	runs := 0
	best := plan.Clone()
	bestV := v
	same := func(p *Plan) bool {
		if runs >= maxRuns || time.Since(start) > maxWall {
			return false
		}
		runs++
		r := exec(p)
		if r != nil && r.Viol != nil && r.Viol.Class == v.Class && r.Viol.Sig == v.Sig {
			bestV = r.Viol
			return true
		}
		return false
	}
	// 1. ddmin over ops
	n := 2
	for len(best.Ops) >= 2 {
		chunk := (len(best.Ops) + n - 1) / n
		reduced := false
		for i := 0; i < len(best.Ops); i += chunk {
			j := i + chunk
			if j > len(best.Ops) {
				j = len(best.Ops)
			}
			cand := best.Clone()
			cand.Ops = append(append([]Op{}, best.Ops[:i]...), best.Ops[j:]...)
			if same(cand) {
				best = cand
				if n > 2 {
					n--
				}
				reduced = true
				break
			}
		}
		if !reduced {
			if chunk == 1 {
				break
			}
			n *= 2
			if n > len(best.Ops) {
				n = len(best.Ops)
			}
		}
		if runs >= maxRuns || time.Since(start) > maxWall {
			break
		}
	}
	// single op removal pass
	for i := len(best.Ops) - 1; i >= 0 && len(best.Ops) > 1; i-- {
		if i >= len(best.Ops) {
			continue
		}
		cand := best.Clone()
		cand.Ops = append(append([]Op{}, best.Ops[:i]...), best.Ops[i+1:]...)
		if same(cand) {
			best = cand
		}
	}
	// 2. faults
	for i := len(best.Faults) - 1; i >= 0; i-- {
		cand := best.Clone()
		cand.Faults = append(append([]Fault{}, best.Faults[:i]...), best.Faults[i+1:]...)
		if same(cand) {
			best = cand
		}
	}
	// 3. pre-emptions, map order
	for i := len(best.Tape.Preempt) - 1; i >= 0; i-- {
		cand := best.Clone()
		cand.Tape.Preempt = append(append([]int64{}, best.Tape.Preempt[:i]...), best.Tape.Preempt[i+1:]...)
		if same(cand) {
			best = cand
		}
	}
	if best.Tape.MapOrder != "" && best.Tape.MapOrder != "sorted" {
		cand := best.Clone()
		cand.Tape.MapOrder = "sorted"
		if same(cand) {
			best = cand
		}
	}
	return best, bestV, runs
}
