package h

import (
	crand "crypto/rand"
	"fmt"
	"io"
	mrand "math/rand"
	"os"
	"path/filepath"
	"sort"

	"github.com/Comcast/rulio/core"
	"github.com/Comcast/rulio/storage/bolt"
)

// rngReader feeds crypto/rand.Reader (used by core.UUID) from the run seed.
type rngReader struct{ r *Rng }

//go:norace
func (x rngReader) Read(p []byte) (int, error) {
	for i := range p {
		p[i] = byte(x.r.U64())
	}
	return len(p), nil
}

var origRandReader io.Reader = crand.Reader

// sortedMatcher wraps rulio's matcher (core.DefaultMatcher is an exported
// variable) and returns its binding sets in a canonical order: the order in
// which the sheens matcher yields alternatives follows Go's map iteration
// order, which would otherwise leak into the order of action executions.
type sortedMatcher struct{ inner core.Matcher }

func (m sortedMatcher) Match(pattern, fact interface{}, bs core.Bindings) ([]core.Bindings, error) {
	out, err := m.inner.Match(pattern, fact, bs)
	if len(out) > 1 {
		keys := make([]string, len(out))
		for i, b := range out {
			keys[i] = Canon(map[string]interface{}(b))
		}
		idx := make([]int, len(out))
		for i := range idx {
			idx[i] = i
		}
		sort.SliceStable(idx, func(a, b int) bool { return keys[idx[a]] < keys[idx[b]] })
		sorted := make([]core.Bindings, len(out))
		for i, j := range idx {
			sorted[i] = out[j]
		}
		out = sorted
	}
	return out, err
}

var origMatcher core.Matcher

// SeedProcess pins every process-wide randomness source rulio reads to the
// run seed and silences rulio's logging.
func SeedProcess(seed uint64) {
	crand.Reader = rngReader{NewRng(seed ^ 0xa5a5a5a5)}
	mrand.Seed(int64(seed))
	if origMatcher == nil {
		origMatcher = core.DefaultMatcher
	}
	core.DefaultMatcher = sortedMatcher{origMatcher}
	core.DefaultVerbosity = core.NOTHING
	core.DefaultLogger = core.BenchLogger
}

// ResetParams restores rulio's process-wide parameters to their defaults.
func ResetParams() *core.Parameters {
	p := core.DefaultParameters()
	p.DefaultControl = QuietControl()
	p.LogAccumulatorSize = 0
	core.SystemParameters = p
	return p
}

func QuietControl() *core.Control {
	c := core.DefaultControl()
	c.Verbosity = core.NOTHING
	c.NoTiming = true
	return c
}

// SharedCtx, when set, is the one context every request of the current run
// uses (a caller that keeps its context and changes the keys on it between
// requests); NewCtx then returns it with the given credentials.
var SharedCtx *core.Context

func NewCtx(p Prot) *core.Context {
	if SharedCtx != nil {
		SharedCtx.ReadKey = p.RK
		SharedCtx.WriteKey = p.WK
		return SharedCtx
	}
	ctx := core.BenchContext("sim")
	ctx.ReadKey = p.RK
	ctx.WriteKey = p.WK
	return ctx
}

// Backend is a storage back end under SimStorage with restart support.
type Backend struct {
	Kind string // mem | bolt
	Mem  *core.MemStorage
	Bolt *bolt.BoltStorage
	Dir  string
	File string
	gen  int
}

func NewBackend(kind string) *Backend {
	b := &Backend{Kind: kind}
	switch kind {
	case "mem":
		b.Mem, _ = core.NewMemStorage(nil)
	case "bolt":
		dir, err := os.MkdirTemp(os.Getenv("VERIF_TMP"), "bolt")
		if err != nil {
			panic(err)
		}
		b.Dir = dir
		b.File = filepath.Join(dir, "db0")
		s, err := bolt.NewStorage(NewCtx(Prot{}), b.File)
		if err != nil {
			panic(err)
		}
		b.Bolt = s
	default:
		panic("backend kind " + kind)
	}
	return b
}

func (b *Backend) Storage() core.Storage {
	if b.Kind == "mem" {
		return b.Mem
	}
	return b.Bolt
}

// Restart models a process restart: for mem the durable content is the map
// itself; for bolt the file is closed (clean) or copied as it is on disk at
// this call boundary (crash) and reopened.
func (b *Backend) Restart(crash bool) core.Storage {
	if b.Kind == "mem" {
		return b.Mem
	}
	b.gen++
	next := filepath.Join(b.Dir, fmt.Sprintf("db%d", b.gen))
	if crash {
		// copy the file as the file system has it; the old handle stays open
		// (the dead process never closed it)
		copyFile(b.File, next)
		old := b.Bolt
		defer old.Close(NewCtx(Prot{}))
	} else {
		b.Bolt.Close(NewCtx(Prot{}))
		copyFile(b.File, next)
	}
	os.Remove(b.File)
	b.File = next
	s, err := bolt.NewStorage(NewCtx(Prot{}), next)
	if err != nil {
		panic(fmt.Sprintf("harness: reopen bolt: %v", err))
	}
	b.Bolt = s
	return s
}

func (b *Backend) Close() {
	if b.Kind == "bolt" {
		if b.Bolt != nil {
			b.Bolt.Close(NewCtx(Prot{}))
		}
		os.RemoveAll(b.Dir)
	}
}

func copyFile(from, to string) {
	bs, err := os.ReadFile(from)
	if err != nil {
		panic(err)
	}
	if err := os.WriteFile(to, bs, 0o600); err != nil {
		panic(err)
	}
}

// CoreEngine drives core.Location objects wired to a SimpleLocationProvider
// over one SimStorage.
type CoreEngine struct {
	Store     *SimStorage
	Back      *Backend
	StateKind string // indexed | linear
	Ctl       *core.Control
	Locs      map[string]*core.Location
	Prov      *core.SimpleLocationProvider
	// Known remembers every location ever opened (a restart reopens them all,
	// also when an earlier restart was itself interrupted).
	Known map[string]bool
	// OnNewState lets a world attach hooks (cron) to each state it creates.
	OnNewState func(ctx *core.Context, name string, st core.State)
}

func NewCoreEngine(stateKind string, back *Backend, ctl *core.Control) *CoreEngine {
	e := &CoreEngine{StateKind: stateKind, Back: back, Ctl: ctl, Locs: map[string]*core.Location{}}
	e.Store = NewSimStorage(back.Storage())
	e.Prov = core.NewSimpleLocationProvider(e.Locs)
	return e
}

func (e *CoreEngine) newState(ctx *core.Context, name string) core.State {
	var st core.State
	if e.StateKind == "linear" {
		st, _ = core.NewLinearState(ctx, name, e.Store)
	} else {
		st, _ = core.NewIndexedState(ctx, name, e.Store)
	}
	if e.OnNewState != nil {
		e.OnNewState(ctx, name, st)
	}
	return st
}

// Open builds (or rebuilds) the location from storage.
func (e *CoreEngine) Open(name string) (*core.Location, error) {
	ctx := NewCtx(Prot{})
	st := e.newState(ctx, name)
	loc, err := core.NewLocation(ctx, name, st, nil)
	if err != nil {
		return nil, err
	}
	loc.SetControl(e.Ctl)
	loc.Provider = e.Prov
	e.Locs[name] = loc
	return loc, nil
}

func (e *CoreEngine) remember(name string) {
	if e.Known == nil {
		e.Known = map[string]bool{}
	}
	e.Known[name] = true
}

// Fresh builds a second, independent Location over the same storage without
// registering it (for reload-equivalence checks).
func (e *CoreEngine) Fresh(name string, store core.Storage) (*core.Location, error) {
	ctx := NewCtx(Prot{})
	var st core.State
	if e.StateKind == "linear" {
		st, _ = core.NewLinearState(ctx, name, store)
	} else {
		st, _ = core.NewIndexedState(ctx, name, store)
	}
	loc, err := core.NewLocation(ctx, name, st, nil)
	if err != nil {
		return nil, err
	}
	loc.SetControl(e.Ctl)
	return loc, nil
}

func (e *CoreEngine) Loc(name string) *core.Location {
	e.remember(name)
	if l, ok := e.Locs[name]; ok {
		return l
	}
	var l *core.Location
	var err error
	for i := 0; i < 3; i++ {
		// an injected (one-shot) load failure is reported by NewLocation: open again
		if l, err = e.Open(name); err == nil {
			return l
		}
	}
	panic(fmt.Sprintf("harness: open %s: %v", name, err))
}

// RestartAll drops every live object and rebuilds all known locations from
// the durable content.
func (e *CoreEngine) RestartAll(crash bool) error {
	for n := range e.Locs {
		e.remember(n)
	}
	names := make([]string, 0, len(e.Known))
	for n := range e.Known {
		names = append(names, n)
	}
	sort.Strings(names)
	for _, n := range names {
		delete(e.Locs, n)
	}
	e.Store.Inner = e.Back.Restart(crash)
	e.Store.Revive()
	for _, n := range names {
		if _, err := e.Open(n); err != nil {
			return err
		}
	}
	return nil
}

// ---- canonical observations -------------------------------------------------

// ObsSearch renders SearchResults as id -> sorted canonical bindings.
func ObsSearch(srs *core.SearchResults) map[string][]string {
	out := map[string][]string{}
	if srs == nil {
		return out
	}
	for _, sr := range srs.Found {
		var bss []string
		for _, bs := range sr.Bindingss {
			bss = append(bss, CanonSet(map[string]interface{}(bs)))
		}
		sort.Strings(bss)
		// equal ids in a location and an ancestor: one multiset per id
		out[sr.Id] = append(out[sr.Id], bss...)
		sort.Strings(out[sr.Id])
	}
	return out
}

// StripEnv removes the variables event processing adds to every binding.
func StripEnv(bs map[string]interface{}) map[string]interface{} {
	m := map[string]interface{}{}
	for k, v := range bs {
		if k == "?event" || k == "?location" || k == "?ruleId" {
			continue
		}
		m[k] = v
	}
	return m
}

// ObsDispatch renders FindRules.Children as ruleId -> sorted canonical `when` bindings.
func ObsDispatch(fr *core.FindRules) map[string][]string {
	out := map[string][]string{}
	if fr == nil {
		return out
	}
	for _, c := range fr.Children {
		var bss []string
		for _, bs := range c.Bindingss {
			bss = append(bss, CanonSet(StripEnv(bs)))
		}
		sort.Strings(bss)
		id := ""
		if c.Rule != nil {
			id = c.Rule.Id
		}
		if _, dup := out[id]; dup {
			id += "#dup"
		}
		out[id] = bss
	}
	return out
}

func ObsValues(fr *core.FindRules) []string {
	var out []string
	if fr == nil {
		return out
	}
	for _, v := range fr.Values {
		out = append(out, Canon(v))
	}
	sort.Strings(out)
	return out
}

func ObsRuleIds(rs map[string]*core.Rule) []string {
	out := make([]string, 0, len(rs))
	for id := range rs {
		out = append(out, id)
	}
	sort.Strings(out)
	return out
}

// DiffSets describes the difference of two id->bindings maps (ignoring ids in skip).
func DiffSets(got, want map[string][]string, skip func(id string) bool) string {
	var d []string
	for id, w := range want {
		if skip != nil && skip(id) {
			continue
		}
		g, ok := got[id]
		if !ok {
			d = append(d, fmt.Sprintf("missing %s %v", id, w))
		} else if MultisetKey(g) != MultisetKey(w) {
			d = append(d, fmt.Sprintf("bindings of %s: got %v want %v", id, g, w))
		}
	}
	for id, g := range got {
		if skip != nil && skip(id) {
			continue
		}
		if _, ok := want[id]; !ok {
			d = append(d, fmt.Sprintf("extra %s %v", id, g))
		}
	}
	sort.Strings(d)
	if len(d) == 0 {
		return ""
	}
	return fmt.Sprint(d)
}
