package h

import (
	"bytes"
	"crypto/sha256"
	"encoding/hex"
	"encoding/json"
	"fmt"
	"sort"
	"strings"
)

// Canon renders v as canonical JSON: keys sorted, numbers normalised to
// float64, Go-typed containers (core.Map, []string, int64 ...) flattened to
// their JSON form.  Two values are observationally equal iff their Canon
// strings are equal.
func Canon(v interface{}) string {
	bs, err := json.Marshal(v)
	if err != nil {
		return fmt.Sprintf("!unmarshalable(%v)", err)
	}
	var x interface{}
	dec := json.NewDecoder(bytes.NewReader(bs))
	if err := dec.Decode(&x); err != nil {
		return "!undecodable:" + string(bs)
	}
	out, _ := json.Marshal(x)
	return string(out)
}

// Parse decodes JSON text into generic Go values (float64 numbers).
func Parse(js string) interface{} {
	var x interface{}
	if err := json.Unmarshal([]byte(js), &x); err != nil {
		panic(fmt.Sprintf("harness: bad JSON %q: %v", js, err))
	}
	return x
}

// ParseMap decodes a JSON object.
func ParseMap(js string) map[string]interface{} {
	m, ok := Parse(js).(map[string]interface{})
	if !ok {
		panic("harness: not a JSON object: " + js)
	}
	return m
}

// Clone deep-copies a JSON-like value through its canonical text.
func Clone(v interface{}) interface{} { return Parse(Canon(v)) }

func CloneMap(m map[string]interface{}) map[string]interface{} {
	return ParseMap(Canon(m))
}

// MultisetKey turns a list of canonical strings into one order-free key.
func MultisetKey(xs []string) string {
	ys := append([]string(nil), xs...)
	sort.Strings(ys)
	return "[" + strings.Join(ys, ",") + "]"
}

func SortedKeys(m map[string]string) []string {
	ks := make([]string, 0, len(m))
	for k := range m {
		ks = append(ks, k)
	}
	sort.Strings(ks)
	return ks
}

// MapKey renders a map[string]string deterministically.
func MapKey(m map[string]string) string {
	var b strings.Builder
	b.WriteString("{")
	for i, k := range SortedKeys(m) {
		if i > 0 {
			b.WriteString(",")
		}
		fmt.Fprintf(&b, "%q:%s", k, m[k])
	}
	b.WriteString("}")
	return b.String()
}

func Sha(s string) string {
	h := sha256.Sum256([]byte(s))
	return hex.EncodeToString(h[:8])
}

func Trunc(s string, n int) string {
	if len(s) <= n {
		return s
	}
	return s[:n] + "…"
}

// SortSets orders every array of scalars inside v: arrays are unordered sets
// and the engine may reorder them in place (the pattern index sorts arrays).
func SortSets(v interface{}) interface{} {
	switch x := v.(type) {
	case map[string]interface{}:
		out := map[string]interface{}{}
		for k, e := range x {
			out[k] = SortSets(e)
		}
		return out
	case []interface{}:
		out := make([]interface{}, len(x))
		scalars := true
		for i, e := range x {
			out[i] = SortSets(e)
			switch e.(type) {
			case map[string]interface{}, []interface{}:
				scalars = false
			}
		}
		if scalars {
			sort.Slice(out, func(i, j int) bool { return Canon(out[i]) < Canon(out[j]) })
		}
		return out
	}
	return v
}

// CanonSet is Canon with arrays of scalars treated as sets.
func CanonSet(v interface{}) string { return Canon(SortSets(Parse(Canon(v)))) }

// MapKeyList renders id -> []canonical-binding maps deterministically.
func MapKeyList(m map[string][]string) string {
	ks := make([]string, 0, len(m))
	for k := range m {
		ks = append(ks, k)
	}
	sort.Strings(ks)
	var b strings.Builder
	b.WriteString("{")
	for i, k := range ks {
		if i > 0 {
			b.WriteString(";")
		}
		b.WriteString(k + "=" + MultisetKey(m[k]))
	}
	b.WriteString("}")
	return b.String()
}
