package h

import (
	"fmt"
	"os"
	"runtime/debug"
	"strings"
	"sync/atomic"
	"testing"
	"testing/synctest"
	"time"
)

// Outcome of running a function inside a synctest bubble.
type BubbleOutcome struct {
	Panic    interface{} // panic value raised by f itself (recovered inside the bubble)
	Stack    string
	Deadlock bool   // the bubble ended because every goroutine was durably blocked
	Leaked   bool   // f returned but blocked goroutines remained (expected for cron loops)
	Msg      string // the synctest panic text, if any
}

var watchdogArmed int64 // unix nanos of the current run's real-time deadline (0: none)
var watchdogInfo atomic.Value

// StartWatchdog starts the real-time watchdog goroutine (outside any bubble).
// A run that exceeds its real-time limit is a hang of non-durably blocked
// goroutines (e.g. a sync.Mutex left locked): the worker exits with status 3
// and the orchestrator turns the journalled plan into a verdict.
func StartWatchdog() {
	go func() {
		for {
			time.Sleep(200 * time.Millisecond)
			d := atomic.LoadInt64(&watchdogArmed)
			if d != 0 && time.Now().UnixNano() > d {
				info, _ := watchdogInfo.Load().(string)
				fmt.Fprintf(os.Stderr, "WATCHDOG: run exceeded its real-time limit: %s\n", info)
				os.Exit(3)
			}
		}
	}()
}

// Arm sets the real-time limit for the current run.
func Arm(limit time.Duration, info string) {
	watchdogInfo.Store(info)
	atomic.StoreInt64(&watchdogArmed, time.Now().Add(limit).UnixNano())
}

func Disarm() { atomic.StoreInt64(&watchdogArmed, 0) }

// Bubble runs f inside a synctest bubble (fake clock starting at
// 2000-01-01T00:00:00Z, time advancing only at quiescence).
func Bubble(t *testing.T, f func()) (out BubbleOutcome) {
	if RaceEnabled() {
		// synctest.Test ends with t.FailNow() - runtime.Goexit - when the race
		// detector reported something during the bubble; the report is this
		// worker's finding (RaceVerdict reads it from the log), so only the
		// goroutine that ran the bubble may end with it, not the worker
		done := make(chan struct{})
		go func() {
			defer close(done)
			out = bubble(t, f)
		}()
		<-done
		return
	}
	return bubble(t, f)
}

func bubble(t *testing.T, f func()) (out BubbleOutcome) {
	defer func() {
		if r := recover(); r != nil {
			msg := fmt.Sprint(r)
			out.Msg = msg
			switch {
			case strings.Contains(msg, "blocked goroutines remain"):
				out.Leaked = true
			case strings.Contains(msg, "deadlock"):
				out.Deadlock = true
			default:
				out.Panic = r
				out.Stack = string(debug.Stack())
			}
		}
	}()
	synctest.Test(t, func(t *testing.T) {
		defer func() {
			if r := recover(); r != nil {
				out.Panic = r
				out.Stack = string(debug.Stack())
			}
		}()
		f()
	})
	return
}

// Epoch is the fake clock's origin.
var Epoch = time.Date(2000, 1, 1, 0, 0, 0, 0, time.UTC)
