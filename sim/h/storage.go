package h

import (
	"errors"
	"fmt"
	"sort"
	"sync"
	"time"

	"github.com/Comcast/rulio/core"
)

// CrashSignal is the private panic value with which SimStorage unwinds the
// calling client when the fault plan says "the process dies here".
type CrashSignal struct{ At int64 }

var ErrInjected = errors.New("injected storage failure")

// StoreCall is one journalled storage call.
type StoreCall struct {
	N       int64
	Loc     string
	Op      string
	Key     string
	Val     string
	Outcome string // ok | error-before | error-after | crash-before | crash-after
}

// SimStorage wraps a real core.Storage back end.  It journals every call,
// injects latency (fake time), failures and crashes addressed by call index,
// and exposes the durable content for "reaches storage" clauses.
type SimStorage struct {
	mu      sync.Mutex
	Inner   core.Storage
	N       int64 // number of calls made so far (mutating and Load)
	Journal []StoreCall
	Faults  map[int64]Fault // by call index
	Fired   map[string]int64
	Loads   map[string]int // Load calls per location
	// Latency, when non-nil, returns the fake-time delay before/after call n.
	Latency func(n int64, op string) (before, after time.Duration)
	// Yield, when non-nil, is called at seam entry and exit (scheduler hook).
	Yield func(site string)
	KeepJournal bool
	// CountOnly restricts fault addressing to mutating calls when true.
	Dead bool // set once a crash fired: every later call on this incarnation panics too
}

func NewSimStorage(inner core.Storage) *SimStorage {
	return &SimStorage{Inner: inner, Faults: map[int64]Fault{}, Fired: map[string]int64{}, Loads: map[string]int{}}
}

func (s *SimStorage) SetFaults(fs []Fault) {
	s.Faults = map[int64]Fault{}
	for _, f := range fs {
		switch f.Kind {
		case "store-error-before", "store-error-after", "crash-before", "crash-after":
			s.Faults[f.At] = f
		}
	}
}

// enter registers a call and applies "before" faults.  It returns the call
// index and the fault to apply after the inner call (if any).
func (s *SimStorage) enter(loc, op, key, val string) (int64, *Fault, error) {
	s.mu.Lock()
	if s.Dead {
		s.mu.Unlock()
		panic(CrashSignal{At: -1})
	}
	n := s.N
	s.N++
	f, has := s.Faults[n]
	s.mu.Unlock()
	if s.Yield != nil {
		s.Yield("store." + op + ".enter")
	}
	if s.Latency != nil {
		if b, _ := s.Latency(n, op); b > 0 {
			s.fire("latency")
			time.Sleep(b)
		}
	}
	call := StoreCall{N: n, Loc: loc, Op: op, Key: key, Val: val, Outcome: "ok"}
	if has {
		switch f.Kind {
		case "store-error-before":
			call.Outcome = f.Kind
			s.record(call)
			s.fire(f.Kind)
			return n, nil, ErrInjected
		case "crash-before":
			call.Outcome = f.Kind
			s.record(call)
			s.fire(f.Kind)
			s.mu.Lock()
			s.Dead = true
			s.mu.Unlock()
			panic(CrashSignal{At: n})
		}
		s.record(call)
		return n, &f, nil
	}
	s.record(call)
	return n, nil, nil
}

func (s *SimStorage) record(c StoreCall) {
	if s.KeepJournal {
		s.mu.Lock()
		s.Journal = append(s.Journal, c)
		s.mu.Unlock()
	}
}

func (s *SimStorage) exit(n int64, op string, f *Fault, err error) error {
	if s.Latency != nil {
		if _, a := s.Latency(n, op); a > 0 {
			s.fire("latency")
			time.Sleep(a)
		}
	}
	if s.Yield != nil {
		s.Yield("store." + op + ".exit")
	}
	if f != nil {
		switch f.Kind {
		case "store-error-after":
			s.fire(f.Kind)
			return ErrInjected
		case "crash-after":
			s.fire(f.Kind)
			s.mu.Lock()
			s.Dead = true
			s.mu.Unlock()
			panic(CrashSignal{At: n})
		}
	}
	return err
}

func (s *SimStorage) Load(ctx *core.Context, loc string) ([]core.Pair, error) {
	n, f, err := s.enter(loc, "load", "", "")
	if err != nil {
		return nil, err
	}
	s.mu.Lock()
	s.Loads[loc]++
	s.mu.Unlock()
	pairs, err := s.Inner.Load(ctx, loc)
	return pairs, s.exit(n, "load", f, err)
}

func (s *SimStorage) Add(ctx *core.Context, loc string, data *core.Pair) error {
	n, f, err := s.enter(loc, "add", string(data.K), string(data.V))
	if err != nil {
		return err
	}
	err = s.Inner.Add(ctx, loc, data)
	return s.exit(n, "add", f, err)
}

func (s *SimStorage) Remove(ctx *core.Context, loc string, k []byte) (int64, error) {
	n, f, err := s.enter(loc, "remove", string(k), "")
	if err != nil {
		return 0, err
	}
	x, err := s.Inner.Remove(ctx, loc, k)
	return x, s.exit(n, "remove", f, err)
}

func (s *SimStorage) Clear(ctx *core.Context, loc string) (int64, error) {
	n, f, err := s.enter(loc, "clear", "", "")
	if err != nil {
		return 0, err
	}
	x, err := s.Inner.Clear(ctx, loc)
	return x, s.exit(n, "clear", f, err)
}

func (s *SimStorage) Delete(ctx *core.Context, loc string) error {
	n, f, err := s.enter(loc, "delete", "", "")
	if err != nil {
		return err
	}
	err = s.Inner.Delete(ctx, loc)
	return s.exit(n, "delete", f, err)
}

func (s *SimStorage) GetStats(ctx *core.Context, loc string) (core.StorageStats, error) {
	return s.Inner.GetStats(ctx, loc)
}

func (s *SimStorage) Close(ctx *core.Context) error  { return s.Inner.Close(ctx) }
func (s *SimStorage) Health(ctx *core.Context) error { return s.Inner.Health(ctx) }

// ErrorsFired is the number of injected storage failures so far.
func (s *SimStorage) ErrorsFired() int64 {
	s.mu.Lock()
	defer s.mu.Unlock()
	return s.Fired["store-error-before"] + s.Fired["store-error-after"]
}

func (s *SimStorage) fire(kind string) {
	s.mu.Lock()
	s.Fired[kind]++
	s.mu.Unlock()
}

// Revive clears the crash flag: a new process incarnation starts using the
// same durable content.
func (s *SimStorage) Revive() {
	s.mu.Lock()
	s.Dead = false
	s.mu.Unlock()
}

// Dump returns the durable content of a location (id -> raw JSON) straight
// from the back end, without journalling and without faults.
func (s *SimStorage) Dump(loc string) map[string]string {
	pairs, err := s.Inner.Load(nil, loc)
	if err != nil {
		panic(fmt.Sprintf("harness: dump failed: %v", err))
	}
	m := make(map[string]string, len(pairs))
	for _, p := range pairs {
		m[string(p.K)] = string(p.V)
	}
	return m
}

func (s *SimStorage) DumpIds(loc string) []string {
	m := s.Dump(loc)
	ids := make([]string, 0, len(m))
	for k := range m {
		ids = append(ids, k)
	}
	sort.Strings(ids)
	return ids
}
