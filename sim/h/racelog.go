package h

import (
	"fmt"
	"os"
	"sort"
	"strings"
)

// Race-detector reports as a per-run oracle.  The race flavour of the worker
// is built with -race and runs every task under the token scheduler's pipe
// gates (see simrt): execution is serial and decided by the tape, and what
// the detector reports is every pair of conflicting accesses that the code
// under test does not order by its own synchronisation in the schedule being
// simulated.  GORACE's log_path sends the reports to a file; whatever was
// appended to it while a plan executed belongs to that plan.

var (
	raceLogPath string // file the runtime appends its reports to ("" = not a race build)
	raceLogOff  int64
)

// RaceLogInit locates the report file (GORACE log_path=<prefix> makes the
// runtime write to <prefix>.<pid>).
func RaceLogInit() {
	p := os.Getenv("VERIF_RACE_LOG")
	if p == "" {
		return
	}
	raceLogPath = fmt.Sprintf("%s.%d", p, os.Getpid())
	raceLogOff = raceLogSize()
}

func raceLogSize() int64 {
	st, err := os.Stat(raceLogPath)
	if err != nil {
		return 0
	}
	return st.Size()
}

// RaceReport is one parsed "WARNING: DATA RACE" block.
type RaceReport struct {
	Sites [2]string // the innermost rulio function of each of the two accesses
	Rulio bool      // at least one access lies in rulio code
	Text  string
}

// raceLogTake returns the reports appended since the last call.
func raceLogTake() []RaceReport {
	if raceLogPath == "" {
		return nil
	}
	size := raceLogSize()
	if size <= raceLogOff {
		return nil
	}
	f, err := os.Open(raceLogPath)
	if err != nil {
		return nil
	}
	defer f.Close()
	buf := make([]byte, size-raceLogOff)
	n, _ := f.ReadAt(buf, raceLogOff)
	raceLogOff += int64(n)
	return ParseRaceReports(string(buf[:n]))
}

func ParseRaceReports(text string) []RaceReport {
	var out []RaceReport
	for _, blk := range strings.Split(text, "==================") {
		if !strings.Contains(blk, "WARNING: DATA RACE") {
			continue
		}
		lines := strings.Split(blk, "\n")
		var stacks [][]string // the function lines of the access stacks, in order
		var cur []string
		in := false
		flushStack := func() {
			if in {
				stacks = append(stacks, cur)
			}
			cur, in = nil, false
		}
		for _, l := range lines {
			switch {
			case strings.HasPrefix(l, "Read at ") || strings.HasPrefix(l, "Write at ") || strings.HasPrefix(l, "Previous read at ") || strings.HasPrefix(l, "Previous write at ") ||
				strings.HasPrefix(l, "Atomic read at ") || strings.HasPrefix(l, "Atomic write at ") || strings.HasPrefix(l, "Previous atomic read at ") || strings.HasPrefix(l, "Previous atomic write at "):
				flushStack()
				in = true
			case strings.HasPrefix(l, "Goroutine ") || strings.TrimSpace(l) == "":
				flushStack()
			case in && strings.HasPrefix(l, "  ") && !strings.HasPrefix(l, "      "):
				cur = append(cur, strings.TrimSuffix(strings.TrimSpace(l), "()"))
			}
		}
		flushStack()
		r := RaceReport{Text: strings.TrimSpace(blk)}
		for i := 0; i < 2 && i < len(stacks); i++ {
			site := ""
			for _, fn := range stacks[i] {
				if strings.Contains(fn, "github.com/Comcast/rulio/") && !strings.Contains(fn, "/zzverif/") {
					site = strings.TrimPrefix(fn, "github.com/Comcast/rulio/")
					r.Rulio = true
					break
				}
			}
			if site == "" && len(stacks[i]) > 0 {
				site = stacks[i][0]
			}
			// closures are numbered by position; keep the enclosing function only
			if j := strings.Index(site, ".func"); j > 0 {
				site = site[:j]
			}
			r.Sites[i] = site
		}
		ss := r.Sites[:]
		sort.Strings(ss)
		out = append(out, r)
	}
	return out
}

// RaceVerdict turns the reports of one execution into a violation (nil if
// there is none).  Reports without any rulio frame are harness trouble and
// abort the worker: they must never pass for a verdict about rulio.
func RaceVerdict(prop, prefix string) *Violation {
	reps := raceLogTake()
	if len(reps) == 0 {
		return nil
	}
	var sigs []string
	seen := map[string]bool{}
	var first *RaceReport
	for i := range reps {
		r := &reps[i]
		if !r.Rulio {
			fmt.Fprintf(os.Stderr, "HARNESS: data race outside rulio code:\n%s\n", Trunc(r.Text, 4000))
			os.Exit(2)
		}
		s := r.Sites[0] + " <-> " + r.Sites[1]
		if !seen[s] {
			seen[s] = true
			sigs = append(sigs, s)
		}
		if first == nil {
			first = r
		}
	}
	sort.Strings(sigs)
	return &Violation{Property: prop, Class: "data-race", Sig: prefix + sigs[0],
		Detail: fmt.Sprintf("the race detector reports %d unordered access pair(s) in this schedule: %s\n%s", len(sigs), strings.Join(sigs, "; "), Trunc(first.Text, 3000)), OpIdx: -1}
}

// RaceLogDiscard forgets what was reported so far (after a run that ended
// abnormally: its tasks were abandoned mid-way and the harness read their
// results without a happens-before edge).
func RaceLogDiscard() {
	if raceLogPath != "" {
		raceLogOff = raceLogSize()
	}
}

// RaceEnabled reports whether this worker is the race flavour.
func RaceEnabled() bool { return raceLogPath != "" }
