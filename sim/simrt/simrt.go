// Package simrt is the simulator runtime that instrumented rulio code calls
// into.  It is NOT part of Comcast/rulio: the verification build overlay
// places it at github.com/Comcast/rulio/zzverif/simrt for the duration of a
// build.  (Go 1.14 language level, standard library only.)
//
// One run token exists.  A task (a simulated client, or a goroutine started
// by an instrumented `go` statement) executes only while it holds the token;
// every other task is parked on its private gate.  At yield points (before a
// lock is taken, after it is released, before an atomic operation, at storage
// seam entry and exit, after a task is spawned) the tape decides whether the
// token moves.  When the runtime is not active every wrapper falls through to
// the original operation, so one binary serves both kinds of world.
//
// Two builds exist (sync_chan.go / sync_pipe.go).  The ordinary one guards
// the scheduler's state with a mutex and parks tasks on channels.  The
// `simrace` one is meant for binaries built with -race: there the token is
// handed over through pipes with raw system calls and the scheduler takes no
// lock and touches no channel, so that the scheduler itself adds no
// happens-before edge between tasks.  The tasks still run strictly one at a
// time, in the order the tape dictates, but the race detector sees only the
// synchronisation the code under test performs itself - and reports, for the
// very schedule being simulated, every pair of accesses that this
// synchronisation does not order.  All functions of this package are
// //go:norace: the scheduler's own state is protected by the token.
package simrt

import (
	"fmt"
	"reflect"
	"runtime/debug"
	"sort"
	"sync"
)

type taskState int

const (
	runnable taskState = iota
	running
	waitLock
	waitWG
	done
)

type task struct {
	id    int
	name  string
	gate  *gate
	state taskState
	wg    *sync.WaitGroup
	fn    func()
	// pendingWrite is the lock this task is waiting to write-lock (from its
	// first failed attempt until it gets the lock).  sync.RWMutex makes new
	// readers wait behind a waiting writer; TryRLock alone would not.
	pendingWrite interface{}
}

// Tape holds the scheduling choices of a run.
type Tape struct {
	Seed     uint64
	Preempt  map[int64]bool // yield sequence numbers at which the token must move (if it can)
	MapOrder string         // sorted | reversed | shuffled
}

// Report describes how a run ended.
type Report struct {
	Deadlock   bool
	Livelock   bool
	Panic      interface{}
	PanicStack string
	PanicTask  string
	Yields     int64
	Switches   int64
	Preempted  int64
	Tasks      int
	WaitGraph  string
	Sites      map[string]int64
}

type wgEntry struct {
	wg *sync.WaitGroup
	n  int
}

var (
	active  bool
	tasks   []*task
	cur     *task
	tape    Tape
	rng     uint64
	seq     int64
	maxSeq  int64
	report  Report
	finish  chan struct{}
	ended   bool
	wgs     []*wgEntry
	events  []string
	tracing bool
	// exits counts task goroutines that have not returned yet.  Its Wait
	// gives the caller of Run a happens-before edge from the end of every
	// task (Done does not order the tasks among themselves).
	exits *sync.WaitGroup
)

// Active reports whether a simulated run is in progress.
//
//go:norace
func Active() bool {
	lockState()
	a := active
	unlockState()
	return a
}

//go:norace
func next64() uint64 {
	rng += 0x9e3779b97f4a7c15
	z := rng
	z = (z ^ (z >> 30)) * 0xbf58476d1ce4e5b9
	z = (z ^ (z >> 27)) * 0x94d049bb133111eb
	return z ^ (z >> 31)
}

//go:norace
func logf(f string, a ...interface{}) {
	if tracing {
		id := -1
		if cur != nil {
			id = cur.id
		}
		events = append(events, fmt.Sprintf("%d t%d ", seq, id)+fmt.Sprintf(f, a...))
	}
}

// Seq returns the global event sequence number (used to stamp histories).
//
//go:norace
func Seq() int64 {
	lockState()
	s := seq
	seq++
	unlockState()
	return s
}

// Run executes the given client functions as tasks under the tape and
// returns when every task (including those spawned on the way) has ended,
// or the run deadlocked, live-locked or a task panicked.
//
//go:norace
func Run(t Tape, trace bool, budget int64, clients map[string]func()) (Report, []string) {
	lockState()
	active = true
	tasks = nil
	cur = nil
	tape = t
	rng = t.Seed
	seq = 0
	maxSeq = budget
	report = Report{Sites: map[string]int64{}}
	finish = make(chan struct{})
	ended = false
	wgs = nil
	events = nil
	tracing = trace
	exits = &sync.WaitGroup{}
	names := make([]string, 0, len(clients))
	for n := range clients {
		names = append(names, n)
	}
	sort.Strings(names)
	for _, n := range names {
		spawnLocked(n, clients[n])
	}
	if len(tasks) == 0 {
		active = false
		unlockState()
		return report, nil
	}
	if tracing {
		for _, tk := range tasks {
			events = append(events, fmt.Sprintf("0 - task t%d = %s", tk.id, tk.name))
		}
	}
	first := pickLocked(nil)
	cur = first
	first.state = running
	unlockState()
	first.gate.signal()
	<-finish
	lockState()
	allDone := true
	for _, o := range tasks {
		if o.state != done {
			allDone = false
		}
	}
	ex := exits
	unlockState()
	if allDone {
		ex.Wait()
	}
	lockState()
	active = false
	report.Yields = seq
	report.Tasks = len(tasks)
	r := report
	ev := events
	for _, o := range tasks {
		if o.state == done {
			o.gate.close()
		}
	}
	unlockState()
	return r, ev
}

//go:norace
func spawnLocked(name string, fn func()) *task {
	t := &task{id: len(tasks), name: name, gate: newGate(), state: runnable, fn: fn}
	tasks = append(tasks, t)
	exits.Add(1)
	go t.main(exits)
	return t
}

// main is the body of a task's goroutine.
//
//go:norace
func (t *task) main(ex *sync.WaitGroup) {
	defer ex.Done()
	t.gate.wait()
	defer t.recovered()
	t.fn()
	lockState()
	t.state = done
	logf("task ends")
	nxt := pickLocked(nil)
	if nxt == nil {
		allDone := true
		for _, o := range tasks {
			if o.state != done {
				allDone = false
			}
		}
		if !allDone {
			report.Deadlock = true
			report.WaitGraph = waitGraphLocked()
		}
		endLocked()
		unlockState()
		return
	}
	cur = nxt
	nxt.state = running
	report.Switches++
	unlockState()
	nxt.gate.signal()
}

//go:norace
func (t *task) recovered() {
	if r := recover(); r != nil {
		lockState()
		if !ended {
			report.Panic = r
			report.PanicStack = string(debug.Stack())
			report.PanicTask = t.name
		}
		endLocked()
		unlockState()
	}
}

//go:norace
func endLocked() {
	if !ended {
		ended = true
		close(finish)
	}
}

//go:norace
func waitGraphLocked() string {
	s := ""
	for _, t := range tasks {
		st := "?"
		switch t.state {
		case runnable:
			st = "runnable"
		case running:
			st = "running"
		case waitLock:
			st = "waiting-for-lock"
		case waitWG:
			st = "waiting-for-waitgroup"
		case done:
			st = "done"
		}
		s += fmt.Sprintf("%s:%s ", t.name, st)
	}
	return s
}

// pickLocked chooses the next task to run among the runnable ones (excluding
// `not`), by the tape's choice stream.  nil if none.
//
//go:norace
func pickLocked(not *task) *task {
	var cands []*task
	for _, t := range tasks {
		if t.state == runnable && t != not {
			cands = append(cands, t)
		}
	}
	if len(cands) == 0 {
		return nil
	}
	return cands[int(next64()%uint64(len(cands)))]
}

// switchFrom parks the calling task t (already marked with its new state)
// and hands the token to nxt.
//
//go:norace
func switchFrom(t, nxt *task) {
	cur = nxt
	nxt.state = running
	report.Switches++
	unlockState()
	nxt.gate.signal()
	t.gate.wait()
	lockState()
}

// forever parks the calling goroutine for good (the run is over).
//
//go:norace
func forever() {
	select {}
}

// Yield is a scheduling point: the token may move to another runnable task.
//
//go:norace
func Yield(site string) {
	lockState()
	if !active || ended || cur == nil {
		unlockState()
		return
	}
	t := cur
	s := seq
	seq++
	if !RaceMode {
		report.Sites[site]++
	}
	logf("yield %s", site)
	if maxSeq > 0 && seq > maxSeq {
		report.Livelock = true
		endLocked()
		unlockState()
		forever() // the run is over; this task never continues
	}
	if tape.Preempt[s] {
		if nxt := pickLocked(t); nxt != nil {
			logf("preempted at %s -> t%d", site, nxt.id)
			report.Preempted++
			t.state = runnable
			switchFrom(t, nxt)
			unlockState()
			return
		}
	}
	unlockState()
}

// Acquire takes a lock: a yield point, then TryLock; a task that cannot get
// the lock is parked until some lock is released (then it tries again).
// id identifies the lock (a pointer), write tells Lock from RLock: a read
// lock is not attempted while another task waits to write-lock the same
// lock, as in sync.RWMutex (this is what makes a recursive read lock
// deadlock against a writer).
//
//go:norace
func Acquire(id interface{}, write bool, try func() bool, lock func(), site string) {
	lockState()
	if !active || ended || cur == nil {
		unlockState()
		lock()
		return
	}
	unlockState()
	Yield("lock " + site)
	for {
		lockState()
		blockedByWriter := false
		if !write && id != nil {
			for _, o := range tasks {
				if o != cur && o.state != done && o.pendingWrite != nil && o.pendingWrite == id {
					blockedByWriter = true
				}
			}
		}
		unlockState()
		if !blockedByWriter && try() {
			if write {
				lockState()
				cur.pendingWrite = nil
				unlockState()
			}
			return
		}
		lockState()
		if ended {
			unlockState()
			forever()
		}
		t := cur
		t.state = waitLock
		if write && id != nil {
			t.pendingWrite = id
		}
		logf("blocked on %s", site)
		nxt := pickLocked(t)
		if nxt == nil {
			report.Deadlock = true
			report.WaitGraph = waitGraphLocked() + "(last: " + site + ")"
			endLocked()
			unlockState()
			forever()
		}
		switchFrom(t, nxt)
		unlockState()
	}
}

// Release releases a lock, makes every lock waiter runnable, and yields.
//
//go:norace
func Release(unlock func(), site string) {
	unlock()
	lockState()
	if !active || ended || cur == nil {
		unlockState()
		return
	}
	for _, t := range tasks {
		if t.state == waitLock {
			t.state = runnable
		}
	}
	unlockState()
	Yield("unlock " + site)
}

// Go starts fn as a task (or as a plain goroutine when no run is active).
//
//go:norace
func Go(fn func(), site string) {
	lockState()
	if !active || ended || cur == nil {
		unlockState()
		go fn()
		return
	}
	name := fmt.Sprintf("%s>%s#%d", cur.name, site, len(tasks))
	nt := spawnLocked(name, fn)
	logf("spawned t%d = %s", nt.id, name)
	unlockState()
	Yield("go " + site)
}

//go:norace
func wgEntryLocked(wg *sync.WaitGroup) *wgEntry {
	for _, e := range wgs {
		if e.wg == wg {
			return e
		}
	}
	e := &wgEntry{wg: wg}
	wgs = append(wgs, e)
	return e
}

// WGAdd / WGDone / WGWait shadow a sync.WaitGroup so that a task waiting for
// it gives up the token instead of blocking the whole simulation.  The real
// WaitGroup is still operated, so its happens-before edges are the program's.
//
//go:norace
func WGAdd(wg *sync.WaitGroup, n int) {
	lockState()
	if active && !ended {
		wgEntryLocked(wg).n += n
	}
	unlockState()
	wg.Add(n)
}

//go:norace
func WGDone(wg *sync.WaitGroup) {
	lockState()
	if active && !ended {
		e := wgEntryLocked(wg)
		e.n--
		if e.n <= 0 {
			for _, t := range tasks {
				if t.state == waitWG && t.wg == wg {
					t.state = runnable
				}
			}
		}
	}
	unlockState()
	wg.Done()
}

//go:norace
func WGWait(wg *sync.WaitGroup) {
	lockState()
	if !active || ended || cur == nil {
		unlockState()
		wg.Wait()
		return
	}
	for wgEntryLocked(wg).n > 0 {
		t := cur
		t.state = waitWG
		t.wg = wg
		nxt := pickLocked(t)
		if nxt == nil {
			report.Deadlock = true
			report.WaitGraph = waitGraphLocked() + "(waitgroup)"
			endLocked()
			unlockState()
			forever()
		}
		switchFrom(t, nxt)
	}
	unlockState()
	wg.Wait()
}

// Keys returns the keys of a string-keyed map in the order this run iterates
// it: iteration order is a choice of the tape instead of a runtime coin.
// (Reading the keys is a read of the program's map, exactly like the range
// statement it replaces.)
func Keys(m interface{}) []string {
	v := reflect.ValueOf(m)
	if v.Kind() != reflect.Map {
		return nil
	}
	ks := make([]string, 0, v.Len())
	for _, k := range v.MapKeys() {
		ks = append(ks, k.String())
	}
	sort.Strings(ks)
	return order(ks)
}

//go:norace
func order(ks []string) []string {
	lockState()
	mode := tape.MapOrder
	act := active && !ended
	if !act {
		unlockState()
		return ks
	}
	switch mode {
	case "reversed":
		for i, j := 0, len(ks)-1; i < j; i, j = i+1, j-1 {
			ks[i], ks[j] = ks[j], ks[i]
		}
	case "shuffled":
		for i := len(ks) - 1; i > 0; i-- {
			j := int(next64() % uint64(i+1))
			ks[i], ks[j] = ks[j], ks[i]
		}
	}
	unlockState()
	return ks
}
