// Package simrt is the simulator runtime that instrumented rulio code calls
// into.  It is NOT part of Comcast/rulio: the verification build overlay
// places it at github.com/Comcast/rulio/zzverif/simrt for the duration of a
// build.  (Go 1.14 language level, standard library only.)
//
// One run token exists.  A task (a simulated client, or a goroutine started
// by an instrumented `go` statement) executes only while it holds the token;
// every other task is parked on its private gate.  At yield points (before a
// lock is taken, after it is released, at storage seam entry and exit, after
// a task is spawned) the tape decides whether the token moves.  When the
// runtime is not active every wrapper falls through to the original
// operation, so one binary serves both kinds of world.
package simrt

import (
	"fmt"
	"reflect"
	"runtime/debug"
	"sort"
	"sync"
)

type taskState int

const (
	runnable taskState = iota
	running
	waitLock
	waitWG
	done
)

type task struct {
	id    int
	name  string
	gate  chan struct{}
	state taskState
	wg    *sync.WaitGroup
}

// Tape holds the scheduling choices of a run.
type Tape struct {
	Seed     uint64
	Preempt  map[int64]bool // yield sequence numbers at which the token must move (if it can)
	MapOrder string         // sorted | reversed | shuffled
}

// Report describes how a run ended.
type Report struct {
	Deadlock   bool
	Livelock   bool
	Panic      interface{}
	PanicStack string
	PanicTask  string
	Yields     int64
	Switches   int64
	Preempted  int64
	Tasks      int
	WaitGraph  string
	Sites      map[string]int64
}

var (
	mu      sync.Mutex
	active  bool
	tasks   []*task
	cur     *task
	tape    Tape
	rng     uint64
	seq     int64
	maxSeq  int64
	report  Report
	finish  chan struct{}
	ended   bool
	wgCount map[*sync.WaitGroup]int
	events  []string
	tracing bool
)

// Active reports whether a simulated run is in progress.
func Active() bool {
	mu.Lock()
	a := active
	mu.Unlock()
	return a
}

func next64() uint64 {
	rng += 0x9e3779b97f4a7c15
	z := rng
	z = (z ^ (z >> 30)) * 0xbf58476d1ce4e5b9
	z = (z ^ (z >> 27)) * 0x94d049bb133111eb
	return z ^ (z >> 31)
}

func logf(f string, a ...interface{}) {
	if tracing {
		name := "-"
		if cur != nil {
			name = cur.name
		}
		events = append(events, fmt.Sprintf("%d %s ", seq, name)+fmt.Sprintf(f, a...))
	}
}

// Seq returns the global event sequence number (used to stamp histories).
func Seq() int64 {
	mu.Lock()
	s := seq
	seq++
	mu.Unlock()
	return s
}

// Run executes the given client functions as tasks under the tape and
// returns when every task (including those spawned on the way) has ended,
// or the run deadlocked, live-locked or a task panicked.
func Run(t Tape, trace bool, budget int64, clients map[string]func()) (Report, []string) {
	mu.Lock()
	active = true
	tasks = nil
	cur = nil
	tape = t
	rng = t.Seed
	seq = 0
	maxSeq = budget
	report = Report{Sites: map[string]int64{}}
	finish = make(chan struct{})
	ended = false
	wgCount = map[*sync.WaitGroup]int{}
	events = nil
	tracing = trace
	names := make([]string, 0, len(clients))
	for n := range clients {
		names = append(names, n)
	}
	sort.Strings(names)
	for _, n := range names {
		spawnLocked(n, clients[n])
	}
	if len(tasks) == 0 {
		active = false
		mu.Unlock()
		return report, nil
	}
	first := pickLocked(nil)
	cur = first
	first.state = running
	mu.Unlock()
	first.gate <- struct{}{}
	<-finish
	mu.Lock()
	active = false
	report.Yields = seq
	report.Tasks = len(tasks)
	r := report
	ev := events
	mu.Unlock()
	return r, ev
}

func spawnLocked(name string, fn func()) *task {
	t := &task{id: len(tasks), name: name, gate: make(chan struct{}, 1), state: runnable}
	tasks = append(tasks, t)
	go func() {
		<-t.gate
		defer func() {
			if r := recover(); r != nil {
				mu.Lock()
				if !ended {
					report.Panic = r
					report.PanicStack = string(debug.Stack())
					report.PanicTask = t.name
				}
				endLocked()
				mu.Unlock()
				return
			}
		}()
		fn()
		mu.Lock()
		t.state = done
		logf("task ends")
		nxt := pickLocked(nil)
		if nxt == nil {
			allDone := true
			for _, o := range tasks {
				if o.state != done {
					allDone = false
				}
			}
			if !allDone {
				report.Deadlock = true
				report.WaitGraph = waitGraphLocked()
			}
			endLocked()
			mu.Unlock()
			return
		}
		cur = nxt
		nxt.state = running
		report.Switches++
		mu.Unlock()
		nxt.gate <- struct{}{}
	}()
	return t
}

func endLocked() {
	if !ended {
		ended = true
		close(finish)
	}
}

func waitGraphLocked() string {
	s := ""
	for _, t := range tasks {
		st := map[taskState]string{runnable: "runnable", running: "running", waitLock: "waiting-for-lock", waitWG: "waiting-for-waitgroup", done: "done"}[t.state]
		s += fmt.Sprintf("%s:%s ", t.name, st)
	}
	return s
}

// pickLocked chooses the next task to run among the runnable ones (excluding
// `not`), by the tape's choice stream.  nil if none.
func pickLocked(not *task) *task {
	var cands []*task
	for _, t := range tasks {
		if t.state == runnable && t != not {
			cands = append(cands, t)
		}
	}
	if len(cands) == 0 {
		return nil
	}
	return cands[int(next64()%uint64(len(cands)))]
}

// switchFrom parks the calling task t (already marked with its new state)
// and hands the token to nxt.
func switchFrom(t, nxt *task) {
	cur = nxt
	nxt.state = running
	report.Switches++
	mu.Unlock()
	nxt.gate <- struct{}{}
	<-t.gate
	mu.Lock()
}

// Yield is a scheduling point: the token may move to another runnable task.
func Yield(site string) {
	mu.Lock()
	if !active || ended || cur == nil {
		mu.Unlock()
		return
	}
	t := cur
	s := seq
	seq++
	report.Sites[site]++
	logf("yield %s", site)
	if maxSeq > 0 && seq > maxSeq {
		report.Livelock = true
		endLocked()
		mu.Unlock()
		select {} // the run is over; this task never continues
	}
	if tape.Preempt[s] {
		if nxt := pickLocked(t); nxt != nil {
			logf("preempted at %s -> %s", site, nxt.name)
			report.Preempted++
			t.state = runnable
			switchFrom(t, nxt)
			mu.Unlock()
			return
		}
	}
	mu.Unlock()
}

// Acquire takes a lock: a yield point, then TryLock; a task that cannot get
// the lock is parked until some lock is released (then it tries again).
func Acquire(try func() bool, lock func(), site string) {
	mu.Lock()
	if !active || ended || cur == nil {
		mu.Unlock()
		lock()
		return
	}
	mu.Unlock()
	Yield("lock " + site)
	for {
		if try() {
			return
		}
		mu.Lock()
		if ended {
			mu.Unlock()
			select {}
		}
		t := cur
		t.state = waitLock
		logf("blocked on %s", site)
		nxt := pickLocked(t)
		if nxt == nil {
			report.Deadlock = true
			report.WaitGraph = waitGraphLocked() + "(last: " + site + ")"
			endLocked()
			mu.Unlock()
			select {}
		}
		switchFrom(t, nxt)
		mu.Unlock()
	}
}

// Release releases a lock, makes every lock waiter runnable, and yields.
func Release(unlock func(), site string) {
	unlock()
	mu.Lock()
	if !active || ended || cur == nil {
		mu.Unlock()
		return
	}
	for _, t := range tasks {
		if t.state == waitLock {
			t.state = runnable
		}
	}
	mu.Unlock()
	Yield("unlock " + site)
}

// Go starts fn as a task (or as a plain goroutine when no run is active).
func Go(fn func(), site string) {
	mu.Lock()
	if !active || ended || cur == nil {
		mu.Unlock()
		go fn()
		return
	}
	name := fmt.Sprintf("%s>%s#%d", cur.name, site, len(tasks))
	spawnLocked(name, fn)
	logf("spawned %s", name)
	mu.Unlock()
	Yield("go " + site)
}

// WGAdd / WGDone / WGWait shadow a sync.WaitGroup so that a task waiting for
// it gives up the token instead of blocking the whole simulation.
func WGAdd(wg *sync.WaitGroup, n int) {
	mu.Lock()
	if active && !ended {
		wgCount[wg] += n
	}
	mu.Unlock()
	wg.Add(n)
}

func WGDone(wg *sync.WaitGroup) {
	mu.Lock()
	if active && !ended {
		wgCount[wg]--
		if wgCount[wg] <= 0 {
			for _, t := range tasks {
				if t.state == waitWG && t.wg == wg {
					t.state = runnable
				}
			}
		}
	}
	mu.Unlock()
	wg.Done()
}

func WGWait(wg *sync.WaitGroup) {
	mu.Lock()
	if !active || ended || cur == nil {
		mu.Unlock()
		wg.Wait()
		return
	}
	for wgCount[wg] > 0 {
		t := cur
		t.state = waitWG
		t.wg = wg
		nxt := pickLocked(t)
		if nxt == nil {
			report.Deadlock = true
			report.WaitGraph = waitGraphLocked() + "(waitgroup)"
			endLocked()
			mu.Unlock()
			select {}
		}
		switchFrom(t, nxt)
	}
	mu.Unlock()
	wg.Wait()
}

// Keys returns the keys of a string-keyed map in the order this run iterates
// it: iteration order is a choice of the tape instead of a runtime coin.
func Keys(m interface{}) []string {
	v := reflect.ValueOf(m)
	if v.Kind() != reflect.Map {
		return nil
	}
	ks := make([]string, 0, v.Len())
	for _, k := range v.MapKeys() {
		ks = append(ks, k.String())
	}
	sort.Strings(ks)
	mu.Lock()
	mode := tape.MapOrder
	act := active && !ended
	mu.Unlock()
	if !act {
		return ks
	}
	switch mode {
	case "reversed":
		for i, j := 0, len(ks)-1; i < j; i, j = i+1, j-1 {
			ks[i], ks[j] = ks[j], ks[i]
		}
	case "shuffled":
		mu.Lock()
		for i := len(ks) - 1; i > 0; i-- {
			j := int(next64() % uint64(i+1))
			ks[i], ks[j] = ks[j], ks[i]
		}
		mu.Unlock()
	}
	return ks
}
