//go:build simrace
// +build simrace

package simrt

import (
	"syscall"
	"unsafe"
)

// RaceMode reports whether this is the build for race-detector binaries.
const RaceMode = true

// The token itself orders every access to the scheduler's state.
func lockState()   {}
func unlockState() {}

// gate: a pipe.  The hand-over uses raw system calls on purpose: package
// syscall's Read and Write tell the race detector about an acquire/release
// pair, a raw SYS_READ/SYS_WRITE does not, and neither does the kernel.
type gate struct {
	r, w   int
	closed bool
}

//go:norace
func newGate() *gate {
	var p [2]int
	if err := syscall.Pipe2(p[:], syscall.O_CLOEXEC); err != nil {
		panic("simrt: pipe: " + err.Error())
	}
	return &gate{r: p[0], w: p[1]}
}

//go:norace
func (g *gate) signal() {
	var b [1]byte
	for {
		n, _, e := syscall.Syscall(syscall.SYS_WRITE, uintptr(g.w), uintptr(unsafe.Pointer(&b[0])), 1)
		if e == syscall.EINTR || e == syscall.EAGAIN {
			continue
		}
		if e != 0 || n != 1 {
			panic("simrt: gate write failed: " + e.Error())
		}
		return
	}
}

//go:norace
func (g *gate) wait() {
	var b [1]byte
	for {
		n, _, e := syscall.Syscall(syscall.SYS_READ, uintptr(g.r), uintptr(unsafe.Pointer(&b[0])), 1)
		if e == syscall.EINTR || e == syscall.EAGAIN {
			continue
		}
		if e != 0 || n != 1 {
			panic("simrt: gate read failed: " + e.Error())
		}
		return
	}
}

//go:norace
func (g *gate) close() {
	if !g.closed {
		g.closed = true
		syscall.Close(g.r)
		syscall.Close(g.w)
	}
}
