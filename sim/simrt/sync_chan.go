//go:build !simrace
// +build !simrace

package simrt

import "sync"

// RaceMode reports whether this is the build for race-detector binaries.
const RaceMode = false

var mu sync.Mutex

func lockState()   { mu.Lock() }
func unlockState() { mu.Unlock() }

type gate struct{ c chan struct{} }

func newGate() *gate    { return &gate{c: make(chan struct{}, 1)} }
func (g *gate) signal() { g.c <- struct{}{} }
func (g *gate) wait()   { <-g.c }
func (g *gate) close()  {}
