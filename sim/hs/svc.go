// Package hs holds the System/service-level adapters of the harness.  It
// needs the build overlay (sys.System.VerifSetStorage), so it is separate
// from package h.
package hs

import (
	"bytes"
	"encoding/json"
	"fmt"
	"io"
	"net/http"
	"net/http/httptest"
	"sort"
	"strings"
	"sync"
	"time"

	"github.com/gorhill/cronexpr"

	"github.com/Comcast/rulio/core"
	"github.com/Comcast/rulio/cron"
	"github.com/Comcast/rulio/service"
	"github.com/Comcast/rulio/sys"

	"verif/sim/h"
)

// ---- SimCron ------------------------------------------------------------------

// SimReg is one registration held by SimCron.
type SimReg struct {
	Loc, Id  string
	Schedule string
	Event    string
	At       time.Time // registration instant
	OneShot  bool
	Due      time.Time // next due instant
	expr     *cronexpr.Expression
}

type CronCall struct {
	Op       string // schedule | rem
	Loc, Id  string
	Schedule string
	At       time.Time
}

// SimCron is the harness implementation of cron.Cronner: it records every
// call, keeps registrations keyed by (location, id) as an external cron
// service keyed by account+id does, and delivers ticks only when the world
// asks it to.
type SimCron struct {
	mu      sync.Mutex
	Persist bool
	Regs    map[string]*SimReg
	Calls   []CronCall
	// FailSchedule makes the next ScheduleEvent calls fail (fault injection).
	FailSchedule int
}

func NewSimCron(persistent bool) *SimCron {
	return &SimCron{Persist: persistent, Regs: map[string]*SimReg{}}
}

func key(loc, id string) string { return loc + "\x00" + id }

func (c *SimCron) ScheduleEvent(ctx *core.Context, se *cron.ScheduledEvent) error {
	loc := ""
	if l := ctx.Location(); l != nil {
		loc = l.Name
	}
	c.mu.Lock()
	defer c.mu.Unlock()
	if c.FailSchedule > 0 {
		c.FailSchedule--
		return fmt.Errorf("injected cron failure")
	}
	sched, _, err := cron.ParseSchedule(se.Schedule)
	if err != nil {
		return err
	}
	now := time.Now()
	r := &SimReg{Loc: loc, Id: se.Id, Schedule: sched, Event: se.Event, At: now}
	switch {
	case strings.HasPrefix(sched, "+"):
		d, err := time.ParseDuration(sched[1:])
		if err != nil {
			return err
		}
		r.OneShot, r.Due = true, now.Add(d)
	case strings.HasPrefix(sched, "!"):
		t, err := time.Parse(time.RFC3339, sched[1:])
		if err != nil {
			return err
		}
		r.OneShot, r.Due = true, t
	default:
		e, err := cronexpr.Parse(sched)
		if err != nil {
			return err
		}
		r.expr = e
		r.Due = e.Next(now.UTC())
	}
	c.Regs[key(loc, se.Id)] = r
	c.Calls = append(c.Calls, CronCall{"schedule", loc, se.Id, sched, now})
	return nil
}

func (c *SimCron) Schedule(ctx *core.Context, sw *cron.ScheduledWork) error {
	return fmt.Errorf("SimCron: HTTP work is not scheduled in this world")
}

func (c *SimCron) Rem(ctx *core.Context, id string) (bool, error) {
	loc := ""
	if l := ctx.Location(); l != nil {
		loc = l.Name
	}
	c.mu.Lock()
	defer c.mu.Unlock()
	_, had := c.Regs[key(loc, id)]
	delete(c.Regs, key(loc, id))
	c.Calls = append(c.Calls, CronCall{"rem", loc, id, "", time.Now()})
	return had, nil
}

func (c *SimCron) Persistent() bool { return c.Persist }

// Due returns the registrations that are due now, ordered by due time; each
// is advanced (recurring) or removed (one-shot) as a real service would.
func (c *SimCron) Due(now time.Time) []SimReg {
	c.mu.Lock()
	defer c.mu.Unlock()
	var out []SimReg
	for {
		var next *SimReg
		for _, r := range c.Regs {
			if !r.Due.After(now) && (next == nil || r.Due.Before(next.Due) || (r.Due.Equal(next.Due) && key(r.Loc, r.Id) < key(next.Loc, next.Id))) {
				next = r
			}
		}
		if next == nil {
			break
		}
		out = append(out, *next)
		if next.OneShot {
			delete(c.Regs, key(next.Loc, next.Id))
		} else {
			next.Due = next.expr.Next(next.Due)
		}
		if len(out) > 10000 {
			break
		}
	}
	return out
}

// NextDue returns the earliest due instant of any registration (zero if none).
func (c *SimCron) NextDue() time.Time {
	c.mu.Lock()
	defer c.mu.Unlock()
	var t time.Time
	for _, r := range c.Regs {
		if t.IsZero() || r.Due.Before(t) {
			t = r.Due
		}
	}
	return t
}

// Registered lists the registrations (sorted "loc/id").
func (c *SimCron) Registered() []string {
	c.mu.Lock()
	defer c.mu.Unlock()
	var out []string
	for _, r := range c.Regs {
		out = append(out, r.Loc+"/"+r.Id)
	}
	sort.Strings(out)
	return out
}

// ---- SvcEngine ----------------------------------------------------------------

// SvcConfig selects the engine configuration of a System-level world.
type SvcConfig struct {
	State          string        // indexed | linear
	TTL            time.Duration // sys.Never, sys.Forever or a finite duration
	CheckExistence bool
	MaxFacts       int
	// NoCachePending: with TTL never, a location being opened is not entered in the cache
	NoCachePending bool
}

// SvcEngine is a sys.System wired to a SimStorage and a Cronner, with the
// service and HTTP layers on top.
type SvcEngine struct {
	Cfg   SvcConfig
	Store *h.SimStorage
	Cron  cron.Cronner
	Sys   *sys.System
	Svc   *service.Service
	HTTP  *service.HTTPService
}

func NewSvcEngine(cfg SvcConfig, store *h.SimStorage, cr cron.Cronner) (*SvcEngine, error) {
	ctx := h.NewCtx(h.Prot{})
	conf := sys.SystemConfig{Storage: "memory", UnindexedState: cfg.State == "linear", CheckExistence: cfg.CheckExistence}
	cont := sys.SystemControl{LocationTTL: cfg.TTL, CachePending: !cfg.NoCachePending}
	ctl := h.QuietControl()
	if cfg.MaxFacts > 0 {
		ctl.MaxFacts = cfg.MaxFacts
	}
	cont.DefaultLocControl = ctl
	s, err := sys.NewSystem(ctx, conf, cont, cr)
	if err != nil {
		return nil, err
	}
	// NewSystem publishes the default control process-wide; keep it quiet
	core.SystemParameters.DefaultControl = ctl
	if store != nil {
		s.VerifSetStorage(store)
	} // else: the System makes its own (memory) storage at its first request
	e := &SvcEngine{Cfg: cfg, Store: store, Cron: cr, Sys: s}
	e.Svc = &service.Service{System: s}
	e.HTTP, _ = service.NewHTTPService(h.NewCtx(h.Prot{}), e.Svc)
	return e, nil
}

// Request sends a generic service request (as the transports build it) and
// returns the JSON text written and the error.
func (e *SvcEngine) Request(ctx *core.Context, m map[string]interface{}) (string, error) {
	var buf bytes.Buffer
	_, err := e.Svc.ProcessRequest(ctx, m, &buf)
	return buf.String(), err
}

// ServeHTTP performs one HTTP exchange in-process; the body is delivered
// through a reader that hands out chunk-sized pieces.
func (e *SvcEngine) ServeHTTP(method, url, contentType, body string, chunk int) (int, string) {
	var rd io.Reader
	if body != "" || method == "POST" {
		rd = &chunkReader{s: body, n: chunk}
	}
	req := httptest.NewRequest(method, url, rd)
	if contentType != "" {
		req.Header.Set("Content-Type", contentType)
	}
	rec := httptest.NewRecorder()
	e.HTTP.ServeHTTP(rec, req)
	return rec.Code, rec.Body.String()
}

type chunkReader struct {
	s string
	n int
}

func (c *chunkReader) Read(p []byte) (int, error) {
	if len(c.s) == 0 {
		return 0, io.EOF
	}
	n := c.n
	if n <= 0 || n > len(c.s) {
		n = len(c.s)
	}
	if n > len(p) {
		n = len(p)
	}
	copy(p, c.s[:n])
	c.s = c.s[n:]
	return n, nil
}

var _ = http.StatusOK

// Req is a logical location request, executable against a System, the
// service layer, or a bare core.Location.
type Req struct {
	Op   string                 `json:"op"`
	Loc  string                 `json:"loc"`
	Id   string                 `json:"id,omitempty"`
	J    map[string]interface{} `json:"j,omitempty"`
	B    bool                   `json:"b,omitempty"`
	L    []string               `json:"l,omitempty"`
}

func canonJSONText(s string) string {
	var x interface{}
	if json.Unmarshal([]byte(s), &x) != nil {
		return "!notjson:" + s
	}
	return h.CanonSet(x)
}

func normErr(err error) string {
	if err == nil {
		return ""
	}
	return "ERR"
}

// DoSys executes a logical request through sys.System and normalises the
// result to a comparable string ("ERR" for any error).
func (e *SvcEngine) DoSys(ctx *core.Context, r Req) string {
	s := e.Sys
	switch r.Op {
	case "create":
		_, err := s.CreateLocation(ctx, r.Loc)
		if err != nil {
			return "ERR"
		}
		return "ok"
	case "addfact":
		id, err := s.AddFact(ctx, r.Loc, r.Id, h.Canon(r.J))
		if err != nil {
			return "ERR"
		}
		if r.Id == "" {
			return "ok:generated"
		}
		return "ok:" + id
	case "remfact":
		_, err := s.RemFact(ctx, r.Loc, r.Id)
		if err != nil {
			return "ERR"
		}
		return "ok"
	case "getfact":
		js, err := s.GetFact(ctx, r.Loc, r.Id)
		if err != nil {
			return "ERR"
		}
		return canonJSONText(js)
	case "search":
		srs, err := s.SearchFacts(ctx, r.Loc, h.Canon(r.J), r.B)
		if err != nil {
			return "ERR"
		}
		return h.MapKeyList(h.ObsSearch(srs))
	case "addrule":
		id, err := s.AddRule(ctx, r.Loc, r.Id, h.Canon(r.J))
		if err != nil {
			return "ERR"
		}
		return "ok:" + id
	case "remrule":
		_, err := s.RemRule(ctx, r.Loc, r.Id)
		if err != nil {
			return "ERR"
		}
		return "ok"
	case "getrule":
		js, err := s.GetRule(ctx, r.Loc, r.Id)
		if err != nil {
			return "ERR"
		}
		return canonJSONText(js)
	case "enable":
		if err := s.EnableRule(ctx, r.Loc, r.Id, r.B); err != nil {
			return "ERR"
		}
		return "ok"
	case "listrules":
		ids, err := s.ListRules(ctx, r.Loc, r.B)
		if err != nil {
			return "ERR"
		}
		sort.Strings(ids)
		return fmt.Sprint(ids)
	case "event":
		fr, err := s.ProcessEvent(ctx, r.Loc, h.Canon(r.J))
		if err != nil {
			return "ERR"
		}
		return h.MapKeyList(h.ObsDispatch(fr)) + " values=" + h.MultisetKey(h.ObsValues(fr))
	case "setparents":
		if _, err := s.SetParents(ctx, r.Loc, r.L); err != nil {
			return "ERR"
		}
		return "ok"
	case "getparents":
		ps, err := s.GetParents(ctx, r.Loc)
		if err != nil {
			return "ERR"
		}
		return fmt.Sprint(ps)
	case "clear":
		if err := s.ClearLocation(ctx, r.Loc); err != nil {
			return "ERR"
		}
		return "ok"
	case "delete":
		if err := s.DeleteLocation(ctx, r.Loc); err != nil {
			return "ERR"
		}
		return "ok"
	case "query":
		qr, err := s.Query(ctx, r.Loc, h.Canon(r.J))
		if err != nil {
			return "ERR"
		}
		var bss []string
		for _, bs := range qr.Bss {
			bss = append(bss, h.CanonSet(map[string]interface{}(bs)))
		}
		return h.MultisetKey(bss)
	}
	return "ERR:unknown-op"
}
