module verif/sim

go 1.26

require (
	github.com/Comcast/rulio v0.0.0
	github.com/anishathalye/porcupine v1.3.0
	github.com/boltdb/bolt v1.3.1
	github.com/gorhill/cronexpr v0.0.0-20180427100037-88b0669f7d75
)

require (
	github.com/Comcast/sheens v2.0.0+incompatible // indirect
	github.com/hashicorp/golang-lru v0.5.4 // indirect
	github.com/robertkrimen/otto v0.0.0-20191219234010-c382bd3c16ff // indirect
	gopkg.in/sourcemap.v1 v1.0.5 // indirect
)

replace github.com/Comcast/rulio => /repo
