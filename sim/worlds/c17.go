package worlds

import (
	"fmt"
	"sort"
	"testing"
	"time"

	"github.com/Comcast/rulio/core"
	"github.com/Comcast/rulio/cron"
	"github.com/Comcast/rulio/sys"

	"verif/sim/h"
	"verif/sim/hs"
)

// C17 — the location cache is transparent.  The same request history runs in
// twin engines (cache TTL never / 1 ms / forever x existence checking off /
// on) and against bare core.Locations; every request must give the same
// result everywhere.

func init() {
	h.Register(&h.World{Prop: "C17", Name: "twins", Gen: genC17, Exec: execC17})
}

func genC17(r *h.Rng, tier string, idx int) *h.Plan {
	p := &h.Plan{Cfg: map[string]interface{}{}}
	p.Cfg["state"] = r.Pick([]string{"indexed", "linear"})
	nl := r.Range(3, 4)
	var locs []string
	for i := 0; i < nl; i++ {
		locs = append(locs, fmt.Sprintf("A%d", i))
	}
	p.Cfg["locs"] = toIface(locs)
	for _, l := range locs {
		p.Ops = append(p.Ops, h.Op{K: "create", Loc: l})
	}
	ids := []string{"f1", "f2", "f3"}
	rids := map[string]string{}
	for _, l := range locs {
		rids[l] = "r" + l
	}
	vals := []string{"x", "y", "z"}
	n := r.Range(20, 40)
	churn := r.P(1, 3)
	if churn {
		p.Cfg["mode"] = "parentchurn"
	}
	// the location's own cacheTTL property (milliseconds) overrides the system's
	// TTL for that location from its next load on: one more way to a finite TTL
	ttlprop := !churn && r.P(1, 3)
	if ttlprop {
		p.Cfg["mode"] = "cachettlprop"
	}
	for i := 0; i < n; i++ {
		l := r.Pick(locs)
		if r.P(1, 12) {
			l = "ghost" // never created
		}
		weights := []int{8, 3, 5, 5, 3, 1, 2, 4, 1, 1, 4, 1, 0, 0, 1, 1}
		if ttlprop {
			weights[15] = 4
		}
		if churn {
			// parent churn: the parent list is an ordinary property fact, so it
			// changes through SetParents, Clear, a written "!parents" fact and the
			// removal of that fact; inherited reads in between
			weights = []int{6, 1, 2, 7, 2, 1, 1, 3, 5, 3, 3, 4, 2, 2, 1, 1}
		}
		switch r.Weighted(weights) {
		case 0:
			f := map[string]interface{}{"k": r.Pick(vals), "n": float64(i)}
			if r.P(1, 5) {
				f["ttl"] = "3s"
			}
			// no deleteWith here: what a search returns for the dependents of an
			// item that expires during that very search depends on Go's map
			// iteration order (linear state), which the plain build cannot pin
			id := r.Pick(ids)
			p.Ops = append(p.Ops, h.Op{K: "addfact", Loc: l, Id: id, J: f})
		case 1:
			p.Ops = append(p.Ops, h.Op{K: "remfact", Loc: l, Id: r.Pick(ids)})
		case 2:
			p.Ops = append(p.Ops, h.Op{K: "getfact", Loc: l, Id: r.Pick(ids)})
		case 3:
			p.Ops = append(p.Ops, h.Op{K: "search", Loc: l, J: map[string]interface{}{"k": r.Pick([]string{"x", "?v"})}, B: r.Bool()})
		case 4:
			rule := map[string]interface{}{"when": map[string]interface{}{"pattern": map[string]interface{}{"ev": r.Pick([]string{"a", "?e"})}},
				"action": map[string]interface{}{"code": fmt.Sprintf("'%s.%d'", l, i)}}
			if r.P(1, 4) {
				rule["condition"] = map[string]interface{}{"pattern": map[string]interface{}{"k": "?k"}}
			}
			p.Ops = append(p.Ops, h.Op{K: "addrule", Loc: l, Id: "r" + l, J: rule})
		case 5:
			p.Ops = append(p.Ops, h.Op{K: "remrule", Loc: l, Id: "r" + l})
		case 6:
			p.Ops = append(p.Ops, h.Op{K: "enable", Loc: l, Id: "r" + l, B: r.Bool()})
		case 7:
			p.Ops = append(p.Ops, h.Op{K: "event", Loc: l, J: map[string]interface{}{"ev": r.Pick([]string{"a", "b"})}})
		case 8:
			// single-parent chains among created locations (A0 <- A1 <- ...)
			i0 := r.Intn(len(locs) - 1)
			var ps []string
			if r.Bool() {
				ps = []string{locs[i0+1]}
			}
			p.Ops = append(p.Ops, h.Op{K: "setparents", Loc: locs[i0], L: ps})
		case 9:
			p.Ops = append(p.Ops, h.Op{K: "clear", Loc: l})
		case 10:
			d := []time.Duration{time.Millisecond / 2, 2 * time.Millisecond, 700 * time.Millisecond, 4 * time.Second}[r.Intn(4)]
			p.Ops = append(p.Ops, h.Op{K: "sleep", N: int64(d)})
		case 11:
			p.Ops = append(p.Ops, h.Op{K: "getparents", Loc: l})
		case 12:
			// the parent list written as the property fact it is
			i0 := r.Intn(len(locs) - 1)
			p.Ops = append(p.Ops, h.Op{K: "addfact", Loc: locs[i0], J: map[string]interface{}{"!parents": []interface{}{locs[i0+1]}}})
		case 13:
			p.Ops = append(p.Ops, h.Op{K: "remfact", Loc: locs[r.Intn(len(locs)-1)], Id: "!.parents"})
		case 15:
			if r.P(1, 4) {
				p.Ops = append(p.Ops, h.Op{K: "remfact", Loc: l, Id: "!.cacheTTL"})
			} else {
				v := []interface{}{0.0, 1.0, 3.0, 1500.0, 100000.0, "soon", -5.0}[r.Intn(7)]
				p.Ops = append(p.Ops, h.Op{K: "addfact", Loc: l, J: map[string]interface{}{"!cacheTTL": v}})
			}
		case 14:
			// the location is deleted (and, where existence is checked, created again by a later "create")
			p.Ops = append(p.Ops, h.Op{K: "delete", Loc: l})
			if r.Bool() {
				p.Ops = append(p.Ops, h.Op{K: "create", Loc: l})
			}
		}
	}
	return p
}

type c17Twin struct {
	name  string
	svc   *hs.SvcEngine
	core  *h.CoreEngine
	store *h.SimStorage
	ce    bool
	// dropped: this engine met the recorded uncreated-parent finding and its
	// state no longer corresponds to its reference twin's
	dropped bool
}

func opToReq(op h.Op) hs.Req {
	return hs.Req{Op: op.K, Loc: op.Loc, Id: op.Id, J: op.Map(), B: op.B, L: op.L}
}

// doCore executes a logical request against bare core.Locations, normalised like SvcEngine.DoSys.
func doCore(e *h.CoreEngine, r hs.Req) (out string) {
	defer func() {
		if x := recover(); x != nil {
			out = fmt.Sprintf("PANIC:%v", x)
		}
	}()
	ctx := h.NewCtx(h.Prot{})
	if r.Op == "create" {
		e.Loc(r.Loc)
		return "ok"
	}
	loc := e.Loc(r.Loc)
	switch r.Op {
	case "addfact":
		id, err := loc.AddFact(ctx, r.Id, core.Map(h.CloneMap(r.J)))
		if err != nil {
			return "ERR"
		}
		if r.Id == "" {
			return "ok:generated"
		}
		return "ok:" + id
	case "remfact":
		if _, err := loc.RemFact(ctx, r.Id); err != nil {
			return "ERR"
		}
		return "ok"
	case "getfact":
		f, err := loc.GetFact(ctx, r.Id)
		if err != nil {
			return "ERR"
		}
		return h.CanonSet(map[string]interface{}(f))
	case "search":
		srs, err := loc.SearchFacts(ctx, core.Map(h.CloneMap(r.J)), r.B)
		if err != nil {
			return "ERR"
		}
		return h.MapKeyList(h.ObsSearch(srs))
	case "addrule":
		id, err := loc.AddRule(ctx, r.Id, core.Map(h.CloneMap(r.J)))
		if err != nil {
			return "ERR"
		}
		return "ok:" + id
	case "remrule":
		if _, err := loc.RemRule(ctx, r.Id); err != nil {
			return "ERR"
		}
		return "ok"
	case "getrule":
		f, err := loc.GetRule(ctx, r.Id)
		if err != nil {
			return "ERR"
		}
		return h.CanonSet(map[string]interface{}(f))
	case "enable":
		if err := loc.EnableRule(ctx, r.Id, r.B); err != nil {
			return "ERR"
		}
		return "ok"
	case "listrules":
		ids, err := loc.ListRules(ctx, r.B)
		if err != nil {
			return "ERR"
		}
		sort.Strings(ids)
		return fmt.Sprint(ids)
	case "event":
		fr, cond := loc.ProcessEvent(ctx, core.Map(h.CloneMap(r.J)))
		if cond != nil {
			return "ERR"
		}
		return h.MapKeyList(h.ObsDispatch(fr)) + " values=" + h.MultisetKey(h.ObsValues(fr))
	case "setparents":
		for _, p := range r.L {
			e.Loc(p)
		}
		if _, err := loc.SetParents(ctx, r.L); err != nil {
			return "ERR"
		}
		return "ok"
	case "clear":
		if err := loc.Clear(ctx); err != nil {
			return "ERR"
		}
		return "ok"
	case "delete":
		if err := loc.Delete(ctx); err != nil {
			return "ERR"
		}
		return "ok"
	case "getparents":
		ps, err := loc.GetParents(ctx)
		if err != nil {
			return "ERR"
		}
		return fmt.Sprint(ps)
	}
	return "ERR:unknown-op"
}

func execC17(t *testing.T, plan *h.Plan, trace bool) *h.Result {
	res := &h.Result{}
	var tr []string
	h.Arm(60*time.Second, fmt.Sprintf("C17 run_seed=%d", plan.RunSeed))
	defer h.Disarm()
	opIdx := 0
	state := plan.CfgS("state", "indexed")
	fail := func(class, sig, f string, a ...interface{}) {
		if res.Viol == nil {
			res.Viol = &h.Violation{Property: "C17", Class: class, Sig: state + ":" + sig, Detail: fmt.Sprintf(f, a...), OpIdx: opIdx}
		}
	}
	// soft: a violation that the known-findings file lists is counted and the run goes on
	soft := func(class, sig, f string, a ...interface{}) {
		v := &h.Violation{Property: "C17", Class: class, Sig: state + ":" + sig, Detail: fmt.Sprintf(f, a...), OpIdx: opIdx}
		if k := h.IsKnown(h.KnownList, v); k != nil {
			if res.Known == nil {
				res.Known = map[string]int64{}
			}
			res.Known[k.Class+" "+k.Sig]++
			return
		}
		if res.Viol == nil {
			res.Viol = v
		}
	}
	out := h.Bubble(t, func() {
		h.SeedProcess(plan.RunSeed)
		h.ResetParams()
		start := time.Now()
		var twins []*c17Twin
		// the direct twins: bare locations, no cache.  The second one stands for a
		// System that checks existence: a request to a location that is not
		// (or no longer) created is refused and has no effect.
		for _, checks := range []bool{false, true} {
			back := h.NewBackend("mem")
			ce := h.NewCoreEngine(state, back, h.QuietControl())
			// the same state hooks a System installs
			dc := hs.NewSimCron(true)
			ce.OnNewState = func(ctx *core.Context, name string, st core.State) { cron.AddHooks(ctx, dc, st) }
			name := "direct"
			if checks {
				name = "direct+existence"
			}
			twins = append(twins, &c17Twin{name: name, core: ce, ce: checks})
		}
		for k, ttl := range []time.Duration{sys.Never, time.Millisecond, sys.Forever, time.Second, sys.Never} {
			for _, ce := range []bool{false, true} {
				mem, _ := core.NewMemStorage(nil)
				store := h.NewSimStorage(mem)
				e, err := hs.NewSvcEngine(hs.SvcConfig{State: state, TTL: ttl, CheckExistence: ce, NoCachePending: k == 4}, store, hs.NewSimCron(true))
				if err != nil {
					panic(err)
				}
				name := fmt.Sprintf("ttl=%v,ce=%v", ttl, ce)
				if ttl == sys.Forever {
					name = fmt.Sprintf("ttl=forever,ce=%v", ce)
				} else if ttl == sys.Never {
					name = fmt.Sprintf("ttl=never,ce=%v", ce)
					if k == 4 {
						name = fmt.Sprintf("ttl=never,nopending,ce=%v", ce)
					}
				}
				twins = append(twins, &c17Twin{name: name, svc: e, store: store, ce: ce})
			}
		}
		created := map[string]bool{}
		everParent := map[string]bool{} // locations that some location has named as a parent
		for i, op := range plan.Ops {
			opIdx = i
			if res.Viol != nil {
				break
			}
			if op.K == "sleep" {
				time.Sleep(time.Duration(op.N))
				continue
			}
			req := opToReq(op)
			if op.K == "create" {
				created[op.Loc] = true
			}
			if op.K == "setparents" {
				for _, pn := range op.L {
					everParent[pn] = true
				}
			}
			if op.K == "addfact" {
				if ps, ok := op.Map()["!parents"].([]interface{}); ok {
					for _, pn := range ps {
						if sn, ok := pn.(string); ok {
							everParent[sn] = true
						}
					}
				}
			}
			results := make([]string, len(twins))
			for k, tw := range twins {
				if tw.core != nil {
					if tw.ce && !created[op.Loc] && op.K != "create" {
						results[k] = "ERR" // refused, no effect
					} else {
						results[k] = doCore(tw.core, req)
					}
				} else {
					func() {
						defer func() {
							if x := recover(); x != nil {
								results[k] = fmt.Sprintf("PANIC:%v", x)
							}
						}()
						results[k] = tw.svc.DoSys(h.NewCtx(h.Prot{}), req)
					}()
				}
			}
			if trace {
				tr = append(tr, fmt.Sprintf("[+%v] op %d: %s -> %v", time.Since(start), i, op.String(), results))
			}
			for k, tw := range twins {
				if tw.core != nil || tw.dropped {
					continue
				}
				want := results[0]
				if tw.ce {
					want = results[1]
				}
				if tw.ce && !created[op.Loc] && op.K != "create" {
					if everParent[op.Loc] {
						// A location that was never created (or was deleted) but is named
						// as a parent is opened, unchecked, on behalf of its children and
						// stays in the cache: recorded finding, classified by this route.
						served := results[k] != "ERR"
						cached := false
						for _, c := range tw.svc.Sys.GetCachedLocations(h.NewCtx(h.Prot{})) {
							if c == op.Loc {
								cached = true
							}
						}
						if served || cached {
							soft("uncreated-parent-served", "ce:named-as-parent", "%s: %s on %q, which was never created (or was deleted) but is named as a parent: result %s, cached %v", tw.name, op.K, op.Loc, results[k], cached)
							if served {
								tw.dropped = true // it has applied what its reference refused: no longer comparable
							}
						}
						continue
					}
					// existence checking: a request to a location that was never created fails ...
					if results[k] != "ERR" {
						fail("uncreated-location-served", "ce:"+op.K, "%s: %s on the never-created location %q returned %s", tw.name, op.K, op.Loc, results[k])
					}
					// ... without creating it
					if n := len(tw.store.Dump(op.Loc)); n > 0 {
						fail("uncreated-location-written", "ce:"+op.K, "%s: %s on the never-created location %q left %d records in storage", tw.name, op.K, op.Loc, n)
					}
					for _, c := range tw.svc.Sys.GetCachedLocations(h.NewCtx(h.Prot{})) {
						if c == op.Loc {
							fail("uncreated-location-cached", "ce:"+op.K, "%s: %s on the never-created location %q left a cache entry", tw.name, op.K, op.Loc)
						}
					}
					continue
				}
				if results[k] != want {
					fail("cache-changes-result", op.K+":"+tw.name, "request %s: direct location says %s, engine with %s says %s", op.String(), want, tw.name, results[k])
				}
			}
			res.Nontrivial = append(res.Nontrivial, op.K+"|"+results[0])
			if op.K == "delete" {
				created[op.Loc] = false // a deleted location has to be created again before it serves
			}
		}
		res.SimNanos = int64(time.Since(start))
		loads := int64(0)
		for _, tw := range twins {
			if tw.store != nil {
				for _, n := range tw.store.Loads {
					loads += int64(n)
				}
			}
		}
		res.Count("location_loads", loads)
	})
	if res.Viol == nil {
		if out.Deadlock {
			res.Viol = &h.Violation{Property: "C17", Class: "deadlock", Sig: state, OpIdx: opIdx, Detail: out.Msg}
		} else if out.Panic != nil {
			res.Viol = &h.Violation{Property: "C17", Class: "harness-panic", Sig: fmt.Sprint(out.Panic), OpIdx: opIdx, Detail: h.Trunc(out.Stack, 1500)}
		}
	}
	res.Trace = tr
	return res
}
