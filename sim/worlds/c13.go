package worlds

import (
	"fmt"
	"runtime/debug"
	"sort"
	"strings"
	"testing"
	"time"

	"github.com/Comcast/rulio/core"
	"github.com/Comcast/rulio/cron"

	"verif/sim/h"
	"verif/sim/hs"
)

// C13 — no input can crash, hang or poison a location.  Malformed inputs are
// this property's fault kind; the canary traffic after each input is the
// "progress once faults stop" clause.

var c13Entry = []string{"addfact", "addrule", "search", "event", "query", "evaluate", "searchrules", "addrulefact"}
var c13Keys = []string{"", "rule", "when", "pattern", "condition", "action", "actions", "schedule", "expires", "ttl", "deleteWith", "id", "!p", "trigger!", "evaluate!", "_id", "locations", "code", "endpoint", "opts", "policies", "once", "and", "or", "not", "libraries"}

func c13Values() []interface{} {
	return []interface{}{
		float64(5), "str", true, nil, []interface{}{}, map[string]interface{}{}, []interface{}{float64(1), "a"},
		map[string]interface{}{"x": map[string]interface{}{}}, "?var", "??", "?x<5", []interface{}{"?a", "?b"},
		map[string]interface{}{"?k": "v", "other": float64(1)}, []interface{}{map[string]interface{}{"a": float64(1)}, "s"},
		float64(-1), "2000-13-45T99:99:99Z", map[string]interface{}{"code": float64(7)},
		// values that are looked at only when the action runs
		map[string]interface{}{"libraries": []interface{}{float64(5)}}, map[string]interface{}{"libraries": "lib", "timeout": "soon"},
	}
}

var c13EnumCount = len(c13Entry) * len(c13Keys) * len(c13Values()) * 2

func init() {
	h.Register(&h.World{Prop: "C13", Name: "matrix", JournalPlans: true, Gen: genC13Matrix,
		Enumerated: func(string) int { return c13EnumCount },
		Runs:       map[string]int{"quick": c13EnumCount, "thorough": c13EnumCount},
		Exec:       execC13})
	h.Register(&h.World{Prop: "C13", Name: "mutations", JournalPlans: true, Gen: genC13Mut, Exec: execC13})
	// property facts ("!name") attached to the canary rule, the canary fact and a
	// dangling id, with every wrong-typed value: the engine reads some
	// properties back itself (a rule's `disabled`) while serving later requests
	h.Register(&h.World{Prop: "C13", Name: "props", JournalPlans: true, Gen: genC13Props,
		Enumerated: func(string) int { return c13PropCount },
		Runs:       map[string]int{"quick": c13PropCount, "thorough": c13PropCount},
		Exec:       execC13})
}

var c13PropTargets = []string{"canaryrule", "canaryfact", "nosuchid"}
var c13PropNames = []string{"disabled", "enabled", "author", "expires"}
var c13PropCount = len(c13PropTargets) * len(c13PropNames) * len(c13Values()) * 2

func genC13Props(r *h.Rng, tier string, idx int) *h.Plan {
	k := idx % c13PropCount
	state := []string{"indexed", "linear"}[k%2]
	k /= 2
	vals := c13Values()
	v := vals[k%len(vals)]
	k /= len(vals)
	name := c13PropNames[k%len(c13PropNames)]
	k /= len(c13PropNames)
	target := c13PropTargets[k%len(c13PropTargets)]
	p := &h.Plan{Cfg: map[string]interface{}{"state": state, "cell": "propfact/" + target + "/" + name + "/" + h.Canon(v)}}
	p.Ops = append(p.Ops, h.Op{K: "propfact", Id: target, S: name, J: map[string]interface{}{"v": v}})
	return p
}

func c13Base(entry string) map[string]interface{} {
	switch entry {
	case "addrule", "evaluate":
		return map[string]interface{}{"when": map[string]interface{}{"pattern": map[string]interface{}{"a": "?x"}}, "condition": map[string]interface{}{"pattern": map[string]interface{}{"b": "?y"}}, "action": map[string]interface{}{"code": "1"}}
	case "addrulefact":
		// a rule-shaped fact written through AddFact (no rule validation on that path)
		return map[string]interface{}{"rule": map[string]interface{}{"when": map[string]interface{}{"pattern": map[string]interface{}{"a": "?x"}}, "action": map[string]interface{}{"code": "1"}}}
	case "query":
		return map[string]interface{}{"and": []interface{}{map[string]interface{}{"pattern": map[string]interface{}{"a": "?x"}}, map[string]interface{}{"code": "true"}}}
	default:
		return map[string]interface{}{"a": "x", "n": float64(1), "deep": map[string]interface{}{"b": []interface{}{"p", "q"}}}
	}
}

// place puts key=val somewhere in m: at the top, or inside a nested map.
func c13Place(r *h.Rng, m map[string]interface{}, key string, val interface{}, depth int) {
	if depth == 0 {
		m[key] = val
		return
	}
	var subs []map[string]interface{}
	for _, v := range m {
		if sm, ok := v.(map[string]interface{}); ok {
			subs = append(subs, sm)
		}
	}
	if len(subs) == 0 {
		m[key] = val
		return
	}
	// deterministic choice
	best := subs[0]
	for _, s := range subs {
		if h.Canon(s) < h.Canon(best) {
			best = s
		}
	}
	c13Place(r, best, key, val, depth-1)
}

func genC13Matrix(r *h.Rng, tier string, idx int) *h.Plan {
	k := idx % c13EnumCount
	state := []string{"indexed", "linear"}[k%2]
	k /= 2
	vals := c13Values()
	v := vals[k%len(vals)]
	k /= len(vals)
	key := c13Keys[k%len(c13Keys)]
	k /= len(c13Keys)
	entry := c13Entry[k%len(c13Entry)]
	p := &h.Plan{Cfg: map[string]interface{}{"state": state, "cell": entry + "/" + key + "/" + h.Canon(v)}}
	m := c13Base(entry)
	m[key] = v
	p.Ops = append(p.Ops, h.Op{K: entry, J: m})
	// the same key one level down (inside `when`, inside a nested map)
	m2 := c13Base(entry)
	c13Place(r, m2, key, h.Clone(v), 1)
	p.Ops = append(p.Ops, h.Op{K: entry, J: m2})
	return p
}

func deepValue(depth int, arr bool) interface{} {
	var v interface{} = "leaf"
	for i := 0; i < depth; i++ {
		if arr {
			v = []interface{}{v}
		} else {
			v = map[string]interface{}{"a": v}
		}
	}
	return v
}

func genC13Mut(r *h.Rng, tier string, idx int) *h.Plan {
	p := &h.Plan{Cfg: map[string]interface{}{"state": r.Pick([]string{"indexed", "linear"})}}
	vals := c13Values()
	if r.P(1, 10) {
		// a deep rule met by an equally deep event (or fact by pattern): the same
		// key nested in itself, the same chain on both sides
		d := []int{12, 24, 48, 96}[r.Intn(4)]
		key := r.Pick([]string{"a", "deep"})
		nest := func(leaf interface{}) interface{} {
			v := leaf
			for i := 0; i < d; i++ {
				v = map[string]interface{}{key: v}
			}
			return v
		}
		if r.Bool() {
			p.Ops = append(p.Ops,
				h.Op{K: "addrule", Q: true, J: map[string]interface{}{"when": map[string]interface{}{"pattern": nest("?x")}, "action": map[string]interface{}{"code": "1"}}},
				h.Op{K: "event", J: nest("leaf").(map[string]interface{})})
		} else {
			p.Ops = append(p.Ops,
				h.Op{K: "addfact", Q: true, J: nest("leaf").(map[string]interface{})},
				h.Op{K: "search", J: nest("?x").(map[string]interface{})},
				h.Op{K: "query", J: map[string]interface{}{"pattern": nest("?x")}})
		}
		return p
	}
	n := r.Range(1, 5)
	for i := 0; i < n; i++ {
		entry := r.Pick(c13Entry)
		m := c13Base(entry)
		muts := r.Range(1, 3)
		for j := 0; j < muts; j++ {
			switch r.Weighted([]int{6, 2, 2, 1, 2, 1}) {
			case 0:
				c13Place(r, m, r.Pick(c13Keys), h.Clone(vals[r.Intn(len(vals))]), r.Range(0, 2))
			case 1:
				d := []int{10, 100, 1000, 5000}[r.Intn(4)]
				c13Place(r, m, r.Pick([]string{"deep", "a", "when", "pattern"}), deepValue(d, r.Bool()), r.Range(0, 1))
			case 2:
				c13Place(r, m, r.Pick([]string{"?k", "?", "??", "a"}), r.Pick([]string{"?x", "??", "?", "?x<1", "?x!=y", "?*"}), r.Range(0, 2))
			case 3:
				c13Place(r, m, "big", strings.Repeat("x", 100000), 0)
			case 4:
				ks := make([]string, 0, len(m))
				for k := range m {
					ks = append(ks, k)
				}
				sort.Strings(ks)
				if len(ks) > 0 {
					delete(m, r.Pick(ks)) // drop a required part
				}
			case 5:
				m = map[string]interface{}{}
			}
		}
		p.Ops = append(p.Ops, h.Op{K: entry, J: m})
	}
	return p
}

func execC13(t *testing.T, plan *h.Plan, trace bool) *h.Result {
	res := &h.Result{}
	var tr []string
	state := plan.CfgS("state", "indexed")
	h.Arm(20*time.Second, fmt.Sprintf("C13 run_seed=%d", plan.RunSeed))
	defer h.Disarm()
	opIdx := 0
	fail := func(class, sig, f string, a ...interface{}) {
		if res.Viol == nil {
			res.Viol = &h.Violation{Property: "C13", Class: class, Sig: state + ":" + sig, Detail: fmt.Sprintf(f, a...), OpIdx: opIdx}
		}
	}
	out := h.Bubble(t, func() {
		h.SeedProcess(plan.RunSeed)
		h.ResetParams()
		back := h.NewBackend("mem")
		eng := h.NewCoreEngine(state, back, h.QuietControl())
		// the state hooks a System installs (cron registration of scheduled
		// rules): they are one more place where an input can be refused late
		sc := hs.NewSimCron(true)
		eng.OnNewState = func(ctx *core.Context, name string, st core.State) { cron.AddHooks(ctx, sc, st) }
		loc := eng.Loc("L")
		ctx := func() *core.Context { return h.NewCtx(h.Prot{}) }
		guard := func(what string, f func()) (panicked bool) {
			defer func() {
				if r := recover(); r != nil {
					st := string(debug.Stack())
					panicked = true
					fail("panic", what+":"+panicSite(st), "%s panicked: %v\n%s", what, r, h.Trunc(st, 1400))
				}
			}()
			f()
			return
		}
		// canary content
		if _, err := loc.AddFact(ctx(), "canaryfact", core.Map{"canary": "alive"}); err != nil {
			panic(err)
		}
		if _, err := loc.AddRule(ctx(), "canaryrule", core.Map{"when": map[string]interface{}{"pattern": map[string]interface{}{"canarypulse": "?x"}}, "action": map[string]interface{}{"code": "'canary-fired'"}}); err != nil {
			panic(err)
		}
		// a second bystander rule whose condition uses the variable its `when` binds:
		// hostile events that carry "a" reach it with whatever they put there
		if _, err := loc.AddRule(ctx(), "canaryrule2", core.Map{"when": map[string]interface{}{"pattern": map[string]interface{}{"a": "?x"}},
			"condition": map[string]interface{}{"pattern": map[string]interface{}{"canary": "?x"}}, "action": map[string]interface{}{"code": "'canary2-fired'"}}); err != nil {
			panic(err)
		}
		// a third bystander whose `when` has a map where the base inputs have one
		if _, err := loc.AddRule(ctx(), "canaryrule3", core.Map{"when": map[string]interface{}{"pattern": map[string]interface{}{"deep": map[string]interface{}{"b": []interface{}{"?e"}}}},
			"action": map[string]interface{}{"code": "'canary3-fired'"}}); err != nil {
			panic(err)
		}
		// (the base rules' condition asks for a fact with "b": make it hold, so that their actions run)
		if _, err := loc.AddFact(ctx(), "condfact", core.Map{"b": "z"}); err != nil {
			panic(err)
		}
		canaryDisabled := false
		canary := func(after string) {
			guard("canary:AddFact", func() {
				if _, err := loc.AddFact(ctx(), "canary2", core.Map{"canary": "second"}); err != nil {
					fail("poisoned", "canary-addfact", "after %s, AddFact of an ordinary fact fails: %v", after, err)
				}
			})
			guard("canary:GetFact", func() {
				got, err := loc.GetFact(ctx(), "canaryfact")
				if err != nil || h.Canon(map[string]interface{}(got)) != `{"canary":"alive"}` {
					fail("poisoned", "canary-getfact", "after %s, GetFact(canaryfact) = %s %v", after, h.Canon(map[string]interface{}(got)), err)
				}
			})
			guard("canary:SearchFacts", func() {
				srs, err := loc.SearchFacts(ctx(), core.Map{"canary": "alive"}, false)
				if err != nil {
					fail("poisoned", "canary-search", "after %s, SearchFacts({canary:alive}) fails: %v", after, err)
					return
				}
				found := false
				for _, sr := range srs.Found {
					if sr.Id == "canaryfact" {
						found = true
					}
				}
				if !found {
					fail("poisoned", "canary-search", "after %s, SearchFacts no longer finds the canary fact", after)
				}
			})
			guard("canary:ProcessEvent", func() {
				fr, cond := loc.ProcessEvent(ctx(), core.Map{"canarypulse": "now"})
				if cond != nil {
					fail("poisoned", "canary-event", "after %s, processing an ordinary event fails: %s", after, cond.Msg)
					return
				}
				n := 0
				for _, v := range fr.Values {
					if v == "canary-fired" {
						n++
					}
				}
				if n == 0 && canaryDisabled {
					return // the input was a well-formed "disable the canary rule": it took effect
				}
				if n != 1 {
					fail("poisoned", "canary-event", "after %s, the canary rule fired %d times for its event (values %v)", after, n, fr.Values)
				}
			})
			guard("canary:Query", func() {
				// an ordinary two-step query over whatever is stored right now (the
				// hostile item included): it may find nothing, it must come back
				loc.Query(ctx(), `{"and":[{"pattern":{"a":"?x"}},{"pattern":{"n":"?x"}}]}`)
			})
			guard("canary:RemFact", func() { loc.RemFact(ctx(), "canary2") })
		}
		for i, op := range plan.Ops {
			opIdx = i
			if res.Viol != nil {
				break
			}
			m := op.Map()
			desc := op.K + " " + h.Trunc(h.Canon(m), 300)
			var err error
			panicked := guard(op.K, func() {
				switch op.K {
				case "addrulefact":
					_, err = loc.AddFact(ctx(), "hostile", core.Map(m))
				case "addfact":
					var id string
					id, err = loc.AddFact(ctx(), "hostile", core.Map(m))
					_ = id
				case "addrule":
					_, err = loc.AddRule(ctx(), "hostilerule", core.Map(m))
				case "search":
					_, err = loc.SearchFacts(ctx(), core.Map(m), false)
				case "searchrules":
					_, err = loc.SearchRules(ctx(), core.Map(m), false)
				case "event":
					_, cond := loc.ProcessEvent(ctx(), core.Map(m))
					if cond != nil {
						err = fmt.Errorf("%s", cond.Msg)
					}
				case "evaluate":
					_, cond := loc.ProcessEvent(ctx(), core.Map{"evaluate!": m, "a": "x"})
					if cond != nil {
						err = fmt.Errorf("%s", cond.Msg)
					}
				case "query":
					_, err = loc.Query(ctx(), h.Canon(m))
				case "propfact":
					_, err = loc.AddFact(ctx(), "", core.Map{"id": op.Id, "!" + op.S: m["v"]})
				}
			})
			if trace {
				tr = append(tr, fmt.Sprintf("op %d: %s -> panicked=%v err=%v", i, desc, panicked, err))
			}
			if panicked {
				break
			}
			res.Nontrivial = append(res.Nontrivial, op.K+"|"+h.Sha(h.Canon(m)))
			if err != nil {
				res.Count("inputs_rejected", 1)
			} else {
				res.Count("inputs_accepted", 1)
			}
			if (op.K == "addrule" || op.K == "addrulefact") && err == nil {
				// an accepted rule is also run: what AddRule does not look at
				// (action options, libraries, odd code) is looked at now.  The
				// event matches the base `when`; errors are fine, panics and
				// hangs are not.
				guard("hostile-rule-event", func() { loc.ProcessEvent(ctx(), core.Map{"a": "x", "b": "y"}) })
				// ... and once more: what the first event left behind about this
				// rule (a cache entry, say) serves the second
				guard("hostile-rule-event-again", func() { loc.ProcessEvent(ctx(), core.Map{"a": "x", "b": "y"}) })
			}
			if err != nil && !panicked {
				// the input was refused: it must have left nothing behind.  The event
				// that the base rules' `when` asks for reaches the bystander rule and
				// whatever else claims that pattern; it must be processed.
				guard("after-refusal-event", func() {
					if _, cond := loc.ProcessEvent(ctx(), core.Map{"a": "x", "b": "y"}); cond != nil {
						fail("poisoned", "event-after-refused-input", "after the refused %s, an ordinary event matching the same pattern fails: %s", desc, cond.Msg)
					}
				})
			}
			canaryDisabled = op.K == "propfact" && op.Id == "canaryrule" && op.S == "disabled" && m["v"] == true && err == nil
			canary(desc)
			canaryDisabled = false
			// whatever the hostile input left behind is removed again (and that must work too)
			if op.Q {
				continue // what this input stored stays for the next one to meet
			}
			guard("cleanup", func() {
				loc.RemFact(ctx(), "hostile")
				loc.RemRule(ctx(), "hostilerule")
				if op.K == "propfact" {
					loc.RemFact(ctx(), h.PropId(op.Id, op.S))
				}
			})
		}
		back.Close()
	})
	if res.Viol == nil {
		if out.Deadlock {
			res.Viol = &h.Violation{Property: "C13", Class: "deadlock", Sig: state + ":bubble", OpIdx: opIdx, Detail: out.Msg}
		} else if out.Panic != nil {
			res.Viol = &h.Violation{Property: "C13", Class: "harness-panic", Sig: fmt.Sprint(out.Panic), OpIdx: opIdx, Detail: h.Trunc(out.Stack, 1500)}
		}
	}
	res.Trace = tr
	return res
}
