package worlds

import (
	"fmt"
	"strings"
	"testing"
	"time"

	"verif/sim/h"
)

// C06 — acknowledged changes are durable; reload reproduces the live location.

var c06Prof = lwProfile{Prop: "C06", Battery: true, Search: true, Dispatch: true, CheckStore: true, CheckReload: true}

func init() {
	// fault_enumeration: for each sampled history, every storage call index x
	// {crash before, crash after apply, error before apply, error after apply}
	h.Register(&h.World{Prop: "C06", Name: "enum", Share: 6, Gen: genC06, Exec: execC06Enum})
	// sampled: longer histories, random faults, reloads, both back ends
	h.Register(&h.World{Prop: "C06", Name: "sampled", Share: 3, Gen: genC06Sampled, Exec: func(t *testing.T, p *h.Plan, tr bool) *h.Result {
		return execLocWorld(t, p, tr, c06Prof)
	}})
	// hand-back integrity on Bolt: what Load returned stays intact while the file grows
	h.Register(&h.World{Prop: "C06", Name: "handback", Share: 1, JournalPlans: true, Gen: genC06Handback, Exec: func(t *testing.T, p *h.Plan, tr bool) *h.Result {
		return execLocWorld(t, p, tr, lwProfile{Prop: "C06", Battery: true, Search: true})
	}})
}

func c06History(r *h.Rng, p *h.Plan, n int) {
	ids := []string{"a", "b", "c", "d"}
	p.Cfg["battery_order"] = r.Pick([]string{"get-search-dispatch", "dispatch-search-get", "search-dispatch-get"})
	p.Cfg["ids"] = toIface(ids)
	p.Cfg["locs"] = toIface([]string{"L", "P"})
	var facts []map[string]interface{}
	var whens []map[string]interface{}
	// related rules: some histories draw their `when` patterns from one small
	// family (the same key with a nested map, a constant, a variable below it),
	// so that what one rule's removal or replacement does to the index that the
	// others share shows in the live location - a reload builds the index anew
	family := []map[string]interface{}{
		{"order": map[string]interface{}{"item": "?x"}},
		{"order": map[string]interface{}{"item": "book"}},
		{"order": map[string]interface{}{"item": "book", "qty": float64(1)}},
		{"order": "any"},
		{"order": "?o"},
		{"order": map[string]interface{}{"to": map[string]interface{}{"city": "?c"}}},
	}
	related := r.P(1, 4)
	for i := 0; i < n; i++ {
		switch r.Weighted([]int{8, 3, 4, 2, 2, 1, 1, 1, 1}) {
		case 0:
			f := h.GenFact(r, h.GenOpts{Depth: 1})
			if r.P(1, 4) {
				f["ttl"] = r.Pick([]string{"30s", "1h"})
			} else if r.P(1, 6) {
				f["expires"] = float64(h.Epoch.Unix() + int64(r.Range(20, 5000)))
			}
			if r.P(1, 3) {
				f["deleteWith"] = []interface{}{r.Pick(ids)}
			}
			facts = append(facts, f)
			id := r.Pick(ids)
			if r.P(1, 6) {
				id = ""
			}
			p.Ops = append(p.Ops, h.Op{K: "addfact", Loc: "L", Id: id, J: f})
		case 1:
			p.Ops = append(p.Ops, h.Op{K: "remfact", Loc: "L", Id: r.Pick(ids)})
		case 2:
			w := genWhen(r)
			if related && r.P(3, 4) {
				w = h.CloneMap(family[r.Intn(len(family))])
			}
			whens = append(whens, w)
			rule := genRuleBody(r, w, false)
			if r.P(1, 5) {
				rule["ttl"] = "45s"
			}
			if r.P(1, 4) {
				rule["deleteWith"] = []interface{}{r.Pick(ids)}
			}
			p.Ops = append(p.Ops, h.Op{K: "addrule", Loc: "L", Id: r.Pick(ids), J: rule})
		case 3:
			p.Ops = append(p.Ops, h.Op{K: "remrule", Loc: "L", Id: r.Pick(ids)})
		case 4:
			p.Ops = append(p.Ops, h.Op{K: "enable", Loc: "L", Id: r.Pick(ids), B: r.Bool()})
		case 5:
			ps := []string{}
			if r.Bool() {
				ps = []string{"P"}
			}
			p.Ops = append(p.Ops, h.Op{K: "setparents", Loc: "L", L: ps})
		case 6:
			p.Ops = append(p.Ops, h.Op{K: "setprop", Loc: "L", Id: r.Pick(ids), S: "color", J: r.Pick([]string{"red", "blue"})})
		case 7:
			p.Ops = append(p.Ops, h.Op{K: "clear", Loc: "L"})
		case 8:
			p.Ops = append(p.Ops, h.Op{K: "sleep", N: int64(time.Duration(r.Range(1, 40)) * time.Second)})
		}
		// what clients do after an error, and often without one: the very same
		// request again (in the faulted executions this is the retry of the
		// operation the fault hit)
		if last := p.Ops[len(p.Ops)-1]; r.P(1, 5) && last.K != "sleep" && last.K != "clear" && !(last.K == "addfact" && last.Id == "") {
			p.Ops = append(p.Ops, last)
		}
	}
	var patterns, events []interface{}
	for i := 0; i < 3 && len(facts) > 0; i++ {
		patterns = append(patterns, h.GenPatternFrom(r, stripReserved(facts[r.Intn(len(facts))]), &h.PatOpts{VarP: 3, DropP: 3}))
	}
	patterns = append(patterns, map[string]interface{}{"rule": "?r"})
	for i := 0; i < 3 && len(whens) > 0; i++ {
		events = append(events, h.GenEventFrom(r, whens[r.Intn(len(whens))], h.GenOpts{Depth: 1}, false))
	}
	if related {
		events = append(events, map[string]interface{}{"order": map[string]interface{}{"item": "book", "qty": float64(1), "to": map[string]interface{}{"city": "x"}}},
			map[string]interface{}{"order": "any"})
	}
	p.Cfg["patterns"] = patterns
	p.Cfg["events"] = events
}

func stripReserved(f map[string]interface{}) map[string]interface{} {
	out := map[string]interface{}{}
	for k, v := range f {
		if k == "ttl" || k == "expires" || k == "deleteWith" {
			continue
		}
		out[k] = v
	}
	return out
}

func genC06(r *h.Rng, tier string, idx int) *h.Plan {
	p := &h.Plan{Cfg: map[string]interface{}{}}
	p.Cfg["state"] = r.Pick([]string{"indexed", "linear"})
	p.Cfg["storage"] = "mem"
	if r.P(1, 8) {
		p.Cfg["storage"] = "bolt"
	}
	p.Cfg["enumerate"] = true
	c06History(r, p, r.Range(3, 9))
	return p
}

func genC06Sampled(r *h.Rng, tier string, idx int) *h.Plan {
	p := &h.Plan{Cfg: map[string]interface{}{}}
	p.Cfg["state"] = r.Pick([]string{"indexed", "linear"})
	p.Cfg["storage"] = r.Pick([]string{"mem", "mem", "bolt"})
	c06History(r, p, r.Range(6, 14))
	// sprinkle reloads
	var ops []h.Op
	for _, op := range p.Ops {
		ops = append(ops, op)
		if r.P(1, 6) {
			ops = append(ops, h.Op{K: "reload", B: r.Bool()})
		}
	}
	p.Ops = ops
	nf := r.Range(0, 2)
	for i := 0; i < nf; i++ {
		p.Faults = append(p.Faults, h.Fault{Kind: r.Pick([]string{"crash-before", "crash-after", "store-error-before", "store-error-after"}), At: int64(r.Range(0, 60))})
	}
	return p
}

// execC06Enum runs the fault-free history (with reload equivalence after
// every operation), learns the number W of storage calls it makes, and then
// re-executes it once per (call index, fault kind).
func execC06Enum(t *testing.T, p *h.Plan, tr bool) *h.Result {
	if len(p.Faults) > 0 || !p.CfgB("enumerate") {
		return execLocWorld(t, p, tr, c06Prof)
	}
	base := execLocWorld(t, p, tr, c06Prof)
	if base.Viol != nil {
		return base
	}
	W := base.Counters["storage_calls"]
	total := base
	total.Count("enumerated_histories", 1)
	kinds := []string{"crash-before", "crash-after", "store-error-before", "store-error-after"}
	// faulted executions judge durability, not reload equivalence after every
	// step (the fault-free pass did that), which keeps the enumeration cheap
	prof := c06Prof
	prof.CheckReload = false
	for k := int64(0); k < W; k++ {
		for _, kind := range kinds {
			q := p.Clone()
			q.Cfg["enumerate"] = false
			q.Faults = []h.Fault{{Kind: kind, At: k}}
			res := execLocWorld(t, q, false, prof)
			total.Count("faulted_executions", 1)
			for ck, cv := range res.Counters {
				if strings.HasPrefix(ck, "fault.") || ck == "crash_restarts" || ck == "ops_hit_by_storage_error" {
					total.Count(ck, cv)
				}
			}
			total.SimNanos += res.SimNanos
			for kk, vv := range res.Known {
				if total.Known == nil {
					total.Known = map[string]int64{}
				}
				total.Known[kk] += vv
			}
			total.Nontrivial = append(total.Nontrivial, fmt.Sprintf("fault|%s|%d|%s", kind, k, h.Sha(h.Canon(p.Ops))))
			if res.Viol != nil {
				total.Viol = res.Viol
				total.PlanOverride = q
				return total
			}
		}
	}
	total.Count("fault_points_enumerated", W*int64(len(kinds)))
	return total
}

func genC06Handback(r *h.Rng, tier string, idx int) *h.Plan {
	p := &h.Plan{Cfg: map[string]interface{}{}}
	p.Cfg["state"] = r.Pick([]string{"linear", "linear", "indexed"})
	p.Cfg["storage"] = "bolt"
	p.Cfg["locs"] = toIface([]string{"L"})
	n := r.Range(3, 8)
	var ids []string
	for i := 0; i < n; i++ {
		id := fmt.Sprintf("h%d", i)
		ids = append(ids, id)
		p.Ops = append(p.Ops, h.Op{K: "addfact", Loc: "L", Id: id, J: map[string]interface{}{"kind": "keep", "n": fmt.Sprintf("v%d", i)}})
	}
	p.Cfg["ids"] = toIface(ids)
	p.Cfg["patterns"] = []interface{}{map[string]interface{}{"kind": "keep", "n": "?n"}}
	p.Ops = append(p.Ops, h.Op{K: "reload"})
	// a burst of writes large enough to make Bolt grow and remap its file
	big := strings.Repeat("x", 4096)
	burst := r.Range(20, 60)
	for i := 0; i < burst; i++ {
		p.Ops = append(p.Ops, h.Op{K: "addfact", Loc: "L", Id: fmt.Sprintf("big%d", i), J: map[string]interface{}{"kind": "bulk", "blob": big + fmt.Sprint(i)}})
	}
	p.Ops = append(p.Ops, h.Op{K: "search", Loc: "L", J: map[string]interface{}{"kind": "keep", "n": "?n"}})
	return p
}
