//go:build simrt

package worlds

import (
	"fmt"
	"testing"
	"time"

	"github.com/Comcast/rulio/core"
	"github.com/Comcast/rulio/sys"
	"github.com/Comcast/rulio/zzverif/simrt"

	"verif/sim/h"
	"verif/sim/hs"
)

// C11 — concurrent requests to different locations do not interfere.
// N simulated clients, each owning one location of one sys.System, issue
// their request sequences under scheduler control, starting with the very
// first requests after the engine is built.  Every client's results must
// equal those of its sequence run alone on a fresh engine, and so must the
// final live and stored state of its location.

func init() {
	h.Register(&h.World{Prop: "C11", Name: "ownlocations", Gen: genC11, Exec: execC11})
}

func genC11(r *h.Rng, tier string, idx int) *h.Plan {
	p := &h.Plan{Cfg: map[string]interface{}{}}
	p.Cfg["state"] = r.Pick([]string{"indexed", "linear"})
	p.Cfg["ttl"] = r.Pick([]string{"forever", "forever", "never"})
	if r.P(1, 4) {
		p.Cfg["own_storage"] = true
	}
	// how the clients reach the engine: sys.System directly, the service
	// layer's generic request map, or the HTTP handler (JSON bodies)
	p.Cfg["via"] = r.Pick([]string{"sys", "sys", "service", "http"})
	nc := r.Range(2, 6)
	p.Cfg["clients"] = nc
	p.Cfg["pct_depth"] = r.Range(0, 4)
	p.Tape.Seed = r.U64()
	p.Tape.MapOrder = r.Pick([]string{"sorted", "reversed", "shuffled"})
	ids := []string{"f1", "f2"}
	for c := 0; c < nc; c++ {
		loc := fmt.Sprintf("own%d", c)
		n := r.Range(3, 8)
		for k := 0; k < n; k++ {
			var op h.Op
			switch r.Weighted([]int{6, 2, 3, 3, 3, 1, 3, 1}) {
			case 0:
				op = h.Op{K: "addfact", Id: r.Pick(ids), J: map[string]interface{}{"k": fmt.Sprintf("c%d.%d", c, k)}}
			case 1:
				op = h.Op{K: "remfact", Id: r.Pick(ids)}
			case 2:
				op = h.Op{K: "getfact", Id: r.Pick(ids)}
			case 3:
				op = h.Op{K: "search", J: map[string]interface{}{"k": "?v"}}
			case 4:
				op = h.Op{K: "addrule", Id: "r1", J: map[string]interface{}{
					"when":   map[string]interface{}{"pattern": map[string]interface{}{"ev": "e"}},
					"action": map[string]interface{}{"code": fmt.Sprintf("Env.AddFact('made', {k: 'by-rule-%d-%d'}); 'v%d.%d'", c, k, c, k)}}}
			case 5:
				op = h.Op{K: "remrule", Id: "r1"}
			case 6:
				op = h.Op{K: "event", J: map[string]interface{}{"ev": "e"}}
			case 7:
				op = h.Op{K: "clear"}
			}
			op.C = c
			op.Loc = loc
			p.Ops = append(p.Ops, op)
		}
	}
	return p
}

func c11Engine(plan *h.Plan) (*hs.SvcEngine, *h.SimStorage) {
	mem, _ := core.NewMemStorage(nil)
	store := h.NewSimStorage(mem)
	ttl := sys.Forever
	if plan.CfgS("ttl", "forever") == "never" {
		ttl = sys.Never
	}
	if plan.CfgB("own_storage") {
		// nothing is injected: the System creates its storage when the first
		// request needs it - with several first requests, more than one may
		store = nil
	}
	e, err := hs.NewSvcEngine(hs.SvcConfig{State: plan.CfgS("state", "indexed"), TTL: ttl}, store, hs.NewSimCron(true))
	if err != nil {
		panic(err)
	}
	return e, store
}

func c11Stored(store *h.SimStorage, loc string) string {
	if store == nil {
		return "(own storage)"
	}
	return fmt.Sprint(store.DumpIds(loc))
}

// c11Do issues one client request the way the plan says (the reference run
// of the same client alone uses the same way, so results stay comparable).
func c11Do(e *hs.SvcEngine, via string, op h.Op) string {
	switch via {
	case "service", "http":
		uri, params := c18Request(op)
		var body string
		if via == "service" {
			m := map[string]interface{}{"uri": "/api" + uri}
			for k, x := range params {
				m[k] = h.Clone(x)
			}
			var err error
			body, err = e.Request(h.NewCtx(h.Prot{}), m)
			if err != nil {
				return "ERR"
			}
		} else {
			method, target, ctype, rb, ok := c18Render("json", "/api", uri, params)
			if !ok {
				return "ERR:render"
			}
			status, out := e.ServeHTTP(method, target, ctype, rb, 0)
			if status != 200 {
				return "ERR"
			}
			body = out
		}
		if pl := c18Payload(op, body); pl != "" {
			return pl
		}
		return "ok"
	}
	return e.DoSys(h.NewCtx(h.Prot{}), opToReq(op))
}

func execC11(t *testing.T, plan *h.Plan, trace bool) *h.Result {
	res := &h.Result{}
	via := plan.CfgS("via", "sys")
	h.Arm(90*time.Second, fmt.Sprintf("C11 run_seed=%d", plan.RunSeed))
	defer h.Disarm()
	nc := int(plan.CfgI("clients", 2))
	byClient := make([][]h.Op, nc)
	for _, op := range plan.Ops {
		if op.C < nc {
			byClient[op.C] = append(byClient[op.C], op)
		}
	}
	prep := func() {
		h.SeedProcess(plan.RunSeed)
		ps := h.ResetParams()
		ps.JavascriptTimeouts = false
	}
	// reference: each client's sequence alone on a fresh engine
	wantRes := make([][]string, nc)
	wantFinal := make([]string, nc)
	for c := 0; c < nc; c++ {
		prep()
		e, store := c11Engine(plan)
		for _, op := range byClient[c] {
			wantRes[c] = append(wantRes[c], c11Do(e, via, op))
		}
		loc := fmt.Sprintf("own%d", c)
		wantFinal[c] = e.DoSys(h.NewCtx(h.Prot{}), hs.Req{Op: "search", Loc: loc, J: map[string]interface{}{"k": "?v"}}) + " rules=" +
			e.DoSys(h.NewCtx(h.Prot{}), hs.Req{Op: "listrules", Loc: loc}) + " stored=" + c11Stored(store, loc)
	}
	run := func(tape simrt.Tape, tr bool) (simrt.Report, []string, [][]string, []string) {
		prep()
		e, store := c11Engine(plan)
		if store != nil {
			store.Yield = simrt.Yield
		}
		got := make([][]string, nc)
		clients := map[string]func(){}
		for c := 0; c < nc; c++ {
			c := c
			if len(byClient[c]) == 0 {
				continue
			}
			clients[fmt.Sprintf("c%d", c)] = func() {
				for _, op := range byClient[c] {
					got[c] = append(got[c], c11Do(e, via, op))
				}
			}
		}
		rep, ev := simrt.Run(tape, tr, 600000, clients)
		final := make([]string, nc)
		if rep.Panic == nil && !rep.Deadlock && !rep.Livelock {
			for c := 0; c < nc; c++ {
				loc := fmt.Sprintf("own%d", c)
				final[c] = e.DoSys(h.NewCtx(h.Prot{}), hs.Req{Op: "search", Loc: loc, J: map[string]interface{}{"k": "?v"}}) + " rules=" +
					e.DoSys(h.NewCtx(h.Prot{}), hs.Req{Op: "listrules", Loc: loc}) + " stored=" + c11Stored(store, loc)
			}
		}
		return rep, ev, got, final
	}
	tape := simTape(plan)
	depth := int(plan.CfgI("pct_depth", 0))
	if plan.Tape.Preempt == nil && depth > 0 {
		dry, _, _, _ := run(simrt.Tape{Seed: plan.Tape.Seed, Preempt: map[int64]bool{}, MapOrder: plan.Tape.MapOrder}, false)
		pts := choosePreemptions(plan.Tape.Seed, depth, dry.Yields)
		tape.Preempt = map[int64]bool{}
		for _, s := range pts {
			tape.Preempt[s] = true
		}
		plan = plan.Clone()
		plan.Tape.Preempt = pts
		if plan.Tape.Preempt == nil {
			plan.Tape.Preempt = []int64{}
		}
	}
	rep, ev, got, final := run(tape, trace)
	res.Count("yield_points", rep.Yields)
	res.Count("task_switches", rep.Switches)
	res.Count("preemptions", rep.Preempted)
	if trace {
		res.Trace = ev
		if len(res.Trace) > 400 {
			res.Trace = res.Trace[len(res.Trace)-400:]
		}
	}
	state := plan.CfgS("state", "indexed")
	viol := func(class, sig, f string, a ...interface{}) {
		if res.Viol == nil {
			res.Viol = &h.Violation{Property: "C11", Class: class, Sig: state + ":" + sig, Detail: fmt.Sprintf(f, a...), OpIdx: 0}
			res.PlanOverride = plan
		}
	}
	switch {
	case rep.Panic != nil:
		viol("panic", "task:"+panicSite(rep.PanicStack), "task %s panicked: %v\n%s", rep.PanicTask, rep.Panic, h.Trunc(rep.PanicStack, 1500))
		return res
	case rep.Deadlock:
		viol("deadlock", "scheduler", "no task can run: %s", rep.WaitGraph)
		return res
	case rep.Livelock:
		viol("livelock", "scheduler", "step budget exhausted after %d yields", rep.Yields)
		return res
	}
	for c := 0; c < nc; c++ {
		for k := range byClient[c] {
			if k >= len(got[c]) || got[c][k] != wantRes[c][k] {
				g := "<missing>"
				if k < len(got[c]) {
					g = got[c][k]
				}
				viol("interference", byClient[c][k].K, "client %d, request %d %s: alone it returns %s, next to the other clients it returned %s", c, k, byClient[c][k].String(), wantRes[c][k], g)
				break
			}
		}
		if final[c] != wantFinal[c] {
			viol("final-state-differs", "final", "location own%d ends as %s; run alone it ends as %s", c, final[c], wantFinal[c])
		}
	}
	res.Nontrivial = append(res.Nontrivial, fmt.Sprintf("%d|%s|%v", rep.Switches, h.Sha(h.Canon(plan.Ops)), plan.Tape.Preempt))
	return res
}

// ---- C17, single-load clause ----------------------------------------------------

func init() {
	h.Register(&h.World{Prop: "C17", Name: "firstload", Share: 1, Gen: genC17First, Exec: execC17First})
}

func genC17First(r *h.Rng, tier string, idx int) *h.Plan {
	p := &h.Plan{Cfg: map[string]interface{}{}}
	p.Cfg["state"] = r.Pick([]string{"indexed", "linear"})
	p.Cfg["ttl"] = r.Pick([]string{"forever", "1h"})
	p.Cfg["clients"] = r.Range(2, 6)
	p.Cfg["pct_depth"] = r.Range(0, 5)
	p.Cfg["preload"] = r.Range(0, 3)
	p.Tape.Seed = r.U64()
	p.Tape.MapOrder = "sorted"
	// with existence checking the location was created by an earlier
	// incarnation of the engine; the concurrent first requests meet a cold cache
	p.Cfg["ce"] = r.Bool()
	return p
}

func execC17First(t *testing.T, plan *h.Plan, trace bool) *h.Result {
	res := &h.Result{}
	h.Arm(60*time.Second, fmt.Sprintf("C17 firstload run_seed=%d", plan.RunSeed))
	defer h.Disarm()
	nc := int(plan.CfgI("clients", 2))
	loads0 := 0 // Storage.Load calls made before the concurrent phase (creation by the earlier incarnation)
	run := func(tape simrt.Tape, tr bool) (simrt.Report, []string, []string, *h.SimStorage, *hs.SvcEngine) {
		h.SeedProcess(plan.RunSeed)
		ps := h.ResetParams()
		ps.JavascriptTimeouts = false
		mem, _ := core.NewMemStorage(nil)
		// content written by an earlier incarnation of the engine
		for i := 0; i < int(plan.CfgI("preload", 0)); i++ {
			mem.Add(nil, "shared", &core.Pair{K: []byte(fmt.Sprintf("old%d", i)), V: []byte(fmt.Sprintf(`{"k":"old%d"}`, i))})
		}
		store := h.NewSimStorage(mem)
		ttl := sys.Forever
		if plan.CfgS("ttl", "forever") == "1h" {
			ttl = time.Hour
		}
		ce, _ := plan.Cfg["ce"].(bool)
		if ce {
			e0, err := hs.NewSvcEngine(hs.SvcConfig{State: plan.CfgS("state", "indexed"), TTL: ttl, CheckExistence: true}, store, hs.NewSimCron(true))
			if err != nil {
				panic(err)
			}
			if r := e0.DoSys(h.NewCtx(h.Prot{}), hs.Req{Op: "create", Loc: "shared"}); r != "ok" {
				panic("harness: cannot create the location: " + r)
			}
		}
		e, err := hs.NewSvcEngine(hs.SvcConfig{State: plan.CfgS("state", "indexed"), TTL: ttl, CheckExistence: ce}, store, hs.NewSimCron(true))
		if err != nil {
			panic(err)
		}
		loads0 = store.Loads["shared"]
		store.Yield = simrt.Yield
		out := make([]string, nc)
		clients := map[string]func(){}
		for c := 0; c < nc; c++ {
			c := c
			clients[fmt.Sprintf("c%d", c)] = func() {
				// the first request of every client goes to the same location
				out[c] = e.DoSys(h.NewCtx(h.Prot{}), hs.Req{Op: "addfact", Loc: "shared", Id: fmt.Sprintf("w%d", c), J: map[string]interface{}{"k": fmt.Sprintf("w%d", c)}})
			}
		}
		rep, ev := simrt.Run(tape, tr, 400000, clients)
		return rep, ev, out, store, e
	}
	tape := simTape(plan)
	depth := int(plan.CfgI("pct_depth", 0))
	if plan.Tape.Preempt == nil && depth > 0 {
		dry, _, _, _, _ := run(simrt.Tape{Seed: plan.Tape.Seed, Preempt: map[int64]bool{}, MapOrder: "sorted"}, false)
		pts := choosePreemptions(plan.Tape.Seed, depth, dry.Yields)
		tape.Preempt = map[int64]bool{}
		for _, s := range pts {
			tape.Preempt[s] = true
		}
		plan = plan.Clone()
		plan.Tape.Preempt = pts
		if plan.Tape.Preempt == nil {
			plan.Tape.Preempt = []int64{}
		}
	}
	rep, ev, out, store, e := run(tape, trace)
	res.Count("yield_points", rep.Yields)
	res.Count("task_switches", rep.Switches)
	res.Count("preemptions", rep.Preempted)
	if trace {
		res.Trace = ev
	}
	state := plan.CfgS("state", "indexed")
	viol := func(class, sig, f string, a ...interface{}) {
		if res.Viol == nil {
			res.Viol = &h.Violation{Property: "C17", Class: class, Sig: state + ":firstload:" + sig, Detail: fmt.Sprintf(f, a...), OpIdx: 0}
			res.PlanOverride = plan
		}
	}
	switch {
	case rep.Panic != nil:
		viol("panic", panicSite(rep.PanicStack), "task %s panicked: %v\n%s", rep.PanicTask, rep.Panic, h.Trunc(rep.PanicStack, 1500))
		return res
	case rep.Deadlock:
		viol("deadlock", "scheduler", "no task can run: %s", rep.WaitGraph)
		return res
	case rep.Livelock:
		viol("livelock", "scheduler", "step budget exhausted")
		return res
	}
	if n := store.Loads["shared"] - loads0; n != 1 {
		viol("location-loaded-more-than-once", "loads", "%d concurrent first requests caused %d Storage.Load calls for the location (results %v)", nc, n, out)
	}
	// every acknowledged write is visible to a later request (one shared instance)
	got := e.DoSys(h.NewCtx(h.Prot{}), hs.Req{Op: "search", Loc: "shared", J: map[string]interface{}{"k": "?v"}})
	for c := 0; c < nc; c++ {
		if out[c] != fmt.Sprintf("ok:w%d", c) {
			viol("first-request-failed", "result", "client %d's first request returned %s", c, out[c])
		} else if !containsId(got, fmt.Sprintf("w%d", c)) {
			viol("acknowledged-write-missed", "lost", "client %d's acknowledged write w%d is not visible afterwards: %s", c, c, got)
		}
	}
	res.Nontrivial = append(res.Nontrivial, fmt.Sprintf("%d|%d|%v", nc, rep.Switches, plan.Tape.Preempt))
	return res
}

func containsId(searchKey, id string) bool {
	return len(searchKey) > 0 && (contains(searchKey, "{"+id+"=") || contains(searchKey, ";"+id+"="))
}

func contains(s, sub string) bool {
	for i := 0; i+len(sub) <= len(s); i++ {
		if s[i:i+len(sub)] == sub {
			return true
		}
	}
	return false
}
