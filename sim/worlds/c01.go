package worlds

import (
	"fmt"
	"testing"
	"time"

	"verif/sim/h"
)

// C01 — event dispatch evaluates exactly the rules whose `when` matches.

func init() {
	h.Register(&h.World{Prop: "C01", Name: "dispatch", Gen: genC01, Exec: func(t *testing.T, p *h.Plan, tr bool) *h.Result {
		return execLocWorld(t, p, tr, lwProfile{Prop: "C01", Battery: true, Dispatch: true})
	}})
}

// genWhen makes an event pattern from the JSON fragment, including the
// shapes an index may mishandle: empty map, empty array, null, nested
// containers, property variable, numbers/booleans only.
func genWhen(r *h.Rng) map[string]interface{} {
	o := h.GenOpts{Depth: 2, Empties: r.P(1, 3), Nulls: r.P(1, 3)}
	switch r.Weighted([]int{10, 1, 1, 1}) {
	case 1:
		return map[string]interface{}{}
	case 2:
		return map[string]interface{}{"?k": h.GenScalar(r, o)}
	case 3:
		return map[string]interface{}{r.Pick(h.GenKeys): h.GenScalar(r, h.GenOpts{Nulls: true})}
	}
	data := h.GenFact(r, o)
	po := &h.PatOpts{VarP: r.Range(0, 4), DropP: 0, PropVar: r.P(1, 6)}
	pat := h.GenPatternFrom(r, data, po)
	delete(pat, "pattern")
	return pat
}

func genRuleBody(r *h.Rng, when map[string]interface{}, implicitOK bool) map[string]interface{} {
	rule := map[string]interface{}{}
	if implicitOK && r.P(1, 6) {
		rule["when"] = when
	} else {
		rule["when"] = map[string]interface{}{"pattern": when}
	}
	if r.Bool() {
		rule["action"] = map[string]interface{}{"code": "1"}
	} else {
		rule["actions"] = []interface{}{map[string]interface{}{"code": "1"}}
	}
	return rule
}

func genC01(r *h.Rng, tier string, idx int) *h.Plan {
	p := &h.Plan{Cfg: map[string]interface{}{}}
	p.Cfg["state"] = r.Pick([]string{"indexed", "linear"})
	p.Cfg["storage"] = "mem"
	p.Cfg["battery_order"] = r.Pick([]string{"get-search-dispatch", "dispatch-search-get", "search-dispatch-get", "dispatch-get-search"})
	nlocs := r.Weighted([]int{5, 3, 2}) + 1
	locs := []string{"L0", "L1", "L2"}[:nlocs]
	p.Cfg["locs"] = toIface(locs)
	ids := func(loc string) []string {
		return []string{"r1" + loc, "r2" + loc, "r3" + loc, "r4" + loc}
	}
	// anchors: plain facts that rules name in deleteWith - a rule also goes away as a
	// dependent (of a removed, overwritten-away or expired anchor), not only by RemRule
	anchors := func(loc string) []string { return []string{"a1" + loc, "a2" + loc} }
	var allIds []string
	for _, l := range locs {
		allIds = append(allIds, ids(l)...)
		allIds = append(allIds, anchors(l)...)
	}
	p.Cfg["ids"] = toIface(allIds)
	// parents: L0 <- L1 <- L2 chain or fan, set up front or changed later
	setParents := func(loc string) h.Op {
		var ps []string
		switch loc {
		case "L0":
			if nlocs > 1 && r.P(3, 4) {
				ps = append(ps, "L1")
			}
			// (L0 -> [L1, L2] with L1 -> [L2] makes L2 reachable along two paths:
			// judged as long as L2 itself contributes no matching rule)
			if nlocs > 2 && r.P(1, 3) && (len(ps) == 0 || r.P(1, 2)) {
				ps = append(ps, "L2")
			}
		case "L1":
			if nlocs > 2 && r.P(2, 3) {
				ps = append(ps, "L2")
			}
		}
		return h.Op{K: "setparents", Loc: loc, L: ps}
	}
	if nlocs > 1 {
		for _, l := range locs[:nlocs-1] {
			if r.P(3, 4) {
				p.Ops = append(p.Ops, setParents(l))
			}
		}
	}
	var whens []map[string]interface{}
	n := r.Range(5, 25)
	// look-alike mode: patterns that match one event in several ways, with events whose
	// values differ only in type (1 / "1", true / "true") or not at all - the rule is
	// evaluated once per way of matching, with exactly those bindings
	lookalike := r.P(1, 5)
	lookWhens := []map[string]interface{}{
		{"readings": map[string]interface{}{"?": "?v"}},
		{"readings": map[string]interface{}{"?p": "?v"}},
		{"tags": []interface{}{"?v"}},
		{"tags": []interface{}{"?"}},
		{"readings": map[string]interface{}{"?": "?v"}, "tags": []interface{}{"?t"}},
	}
	if lookalike {
		p.Cfg["mode"] = "lookalike"
	}
	boolArrays := false
	for i := 0; i < n; i++ {
		loc := r.Pick(locs)
		switch r.Weighted([]int{10, 3, 2, 2, 1, 1, 2, 1, 2, 2}) {
		case 8:
			f := map[string]interface{}{"anchor": loc}
			if r.P(1, 3) {
				f["ttl"] = fmt.Sprintf("%ds", r.Range(5, 60))
			}
			p.Ops = append(p.Ops, h.Op{K: "addfact", Loc: loc, Id: r.Pick(anchors(loc)), J: f})
		case 9:
			p.Ops = append(p.Ops, h.Op{K: "remfact", Loc: loc, Id: r.Pick(anchors(loc))})
		case 0:
			w := genWhen(r)
			if lookalike && r.P(2, 3) {
				w = h.CloneMap(lookWhens[r.Intn(len(lookWhens))])
			}
			if r.P(1, 15) {
				// an array of booleans: a set like any other array
				w = map[string]interface{}{"flags": r.PickAny([]interface{}{[]interface{}{false, true}, []interface{}{true, false}, []interface{}{true}}).([]interface{})}
				boolArrays = true
			}
			whens = append(whens, w)
			rule := genRuleBody(r, w, false)
			var dw interface{}
			if r.P(1, 4) {
				dw = []interface{}{r.Pick(anchors(loc))}
			}
			if r.P(1, 8) {
				rule = map[string]interface{}{"schedule": "+1h", "action": map[string]interface{}{"code": "1"}}
			}
			if r.P(1, 8) {
				rule["expires"] = float64(h.Epoch.Unix() + int64(r.Range(5, 100)))
			}
			id := r.Pick(ids(loc))
			if r.P(1, 10) {
				id = ""
			}
			if dw != nil {
				if _, sched := rule["schedule"]; !sched {
					// (AddRule takes deleteWith from the rule's own body)
					rule["deleteWith"] = dw
				}
			}
			p.Ops = append(p.Ops, h.Op{K: "addrule", Loc: loc, Id: id, J: rule})
		case 1:
			p.Ops = append(p.Ops, h.Op{K: "remrule", Loc: loc, Id: r.Pick(ids(loc))})
		case 2:
			// overwrite a rule id with plain data
			p.Ops = append(p.Ops, h.Op{K: "addfact", Loc: loc, Id: r.Pick(ids(loc)), J: h.GenFact(r, h.GenOpts{Depth: 1})})
		case 3:
			// disable/enable, possibly an inherited rule's id
			l2 := r.Pick(locs)
			p.Ops = append(p.Ops, h.Op{K: "enable", Loc: loc, Id: r.Pick(ids(l2)), B: r.Bool()})
		case 4:
			p.Ops = append(p.Ops, h.Op{K: "clear", Loc: loc})
		case 5:
			p.Ops = append(p.Ops, h.Op{K: "reload"})
		case 6:
			p.Ops = append(p.Ops, h.Op{K: "sleep", N: int64(time.Duration(r.Range(1, 60)) * time.Second)})
		case 7:
			if nlocs > 1 && loc != locs[nlocs-1] {
				p.Ops = append(p.Ops, setParents(loc))
			}
		}
	}
	// event battery: instantiations of stored patterns (matching), perturbed
	// ones (failing at one value) and one unrelated event
	var events []interface{}
	o := h.GenOpts{Depth: 1}
	for i := 0; i < 5 && len(whens) > 0; i++ {
		w := whens[r.Intn(len(whens))]
		events = append(events, h.GenEventFrom(r, w, o, r.P(1, 4)))
	}
	events = append(events, h.GenFact(r, h.GenOpts{Depth: 1}))
	if lookalike {
		events = []interface{}{
			map[string]interface{}{"readings": map[string]interface{}{"kitchen": 1.0, "hall": "1"}},
			map[string]interface{}{"readings": map[string]interface{}{"a": true, "b": "true", "c": true}, "tags": []interface{}{"x", "y", "z"}},
			map[string]interface{}{"tags": []interface{}{"x", "y", "z"}},
			map[string]interface{}{"tags": []interface{}{1.0, 2.0}, "readings": map[string]interface{}{"a": nil, "b": "<nil>"}},
			h.GenFact(r, h.GenOpts{Depth: 1}),
		}
		if p.Cfg["state"] == "linear" {
			events = append(events, map[string]interface{}{"tags": []interface{}{1.0, "1"}})
		}
	}
	if r.P(1, 3) {
		// one storage call of the history fails: the operation it belongs to reports
		// an error, and whatever it leaves behind is one consistent thing - a rule
		// that the location still hands out is still dispatched
		p.Faults = append(p.Faults, h.Fault{Kind: r.Pick([]string{"store-error-before", "store-error-after"}), At: int64(r.Range(1, 40))})
	}
	if boolArrays {
		events = append(events, map[string]interface{}{"flags": []interface{}{true, false}}, map[string]interface{}{"flags": []interface{}{false, true}, "kind": "x"})
	}
	p.Cfg["events"] = events
	_ = fmt.Sprint
	return p
}
