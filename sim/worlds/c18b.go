package worlds

import (
	"encoding/json"
	"fmt"
	"strings"
	"testing"
	"time"

	"github.com/Comcast/rulio/core"
	"github.com/Comcast/rulio/sys"

	"verif/sim/h"
	"verif/sim/hs"
)

// C18, world "batches" — "or inside a batch": one logical history is cut
// into batches of 1-5 requests (sent to /sys/util/batch over HTTP or as the
// generic request map); a twin System receives the corresponding direct
// calls.  Every item of a batch must do what the same request does alone:
// same outcome (result or error), same payload, and at the end the same
// facts and rules.  The history includes the two composite service
// operations, take (search and remove what was found) and replace (take,
// then add), whose direct counterpart is that sequence of System calls.

func init() {
	h.Register(&h.World{Prop: "C18", Name: "batches", Gen: genC18Batches, Exec: execC18Batches})
}

func genC18Batches(r *h.Rng, tier string, idx int) *h.Plan {
	p := genC18(r, tier, idx)
	p.Cfg["prefix"] = "/api"
	p.Cfg["transport"] = r.Pick([]string{"http", "map"})
	locs := []string{"svc1", "svc two"}
	// sprinkle takes and replaces over the history
	var ops []h.Op
	for _, op := range p.Ops {
		ops = append(ops, op)
		if r.P(1, 4) {
			pat := map[string]interface{}{"k": "?v"}
			if r.Bool() {
				pat = map[string]interface{}{"k": r.Pick(c18Strings)}
			}
			if r.Bool() {
				ops = append(ops, h.Op{K: "take", Loc: r.Pick(locs), J: pat})
			} else {
				ops = append(ops, h.Op{K: "replace", Loc: r.Pick(locs), Id: r.Pick([]string{"i1", "i2", ""}), J: map[string]interface{}{"k": r.Pick(c18Strings), "n": float64(9)},
					Sub: []h.Op{{K: "pattern", J: pat}}})
			}
			if r.P(2, 3) {
				// what follows a take in the same batch is an ordinary request again
				ops = append(ops, h.Op{K: "search", Loc: r.Pick(locs), J: map[string]interface{}{"k": "?v"}})
			}
		}
	}
	p.Ops = ops
	var cuts []interface{}
	for n := 0; n < len(ops); {
		k := r.Range(1, 5)
		cuts = append(cuts, float64(k))
		n += k
	}
	p.Cfg["cuts"] = cuts
	return p
}

func execC18Batches(t *testing.T, plan *h.Plan, trace bool) *h.Result {
	res := &h.Result{}
	var tr []string
	h.Arm(60*time.Second, fmt.Sprintf("C18 batches run_seed=%d", plan.RunSeed))
	defer h.Disarm()
	opIdx := 0
	state := plan.CfgS("state", "indexed")
	transport := plan.CfgS("transport", "http")
	fail := func(class, sig, f string, a ...interface{}) {
		if res.Viol == nil {
			res.Viol = &h.Violation{Property: "C18", Class: class, Sig: sig, Detail: fmt.Sprintf(f, a...), OpIdx: opIdx}
		}
	}
	var cuts []int
	if xs, ok := plan.Cfg["cuts"].([]interface{}); ok {
		for _, x := range xs {
			if f, ok := x.(float64); ok && f >= 1 {
				cuts = append(cuts, int(f))
			}
		}
	}
	out := h.Bubble(t, func() {
		h.SeedProcess(plan.RunSeed)
		h.ResetParams()
		mk := func() *hs.SvcEngine {
			mem, _ := core.NewMemStorage(nil)
			e, err := hs.NewSvcEngine(hs.SvcConfig{State: state, TTL: sys.Forever}, h.NewSimStorage(mem), hs.NewSimCron(true))
			if err != nil {
				panic(err)
			}
			return e
		}
		direct, eng := mk(), mk()
		// the direct counterpart of one request
		wantOf := func(op h.Op) c18Outcome {
			var want c18Outcome
			ctx := func() *core.Context { return h.NewCtx(h.Prot{}) }
			switch op.K {
			case "bad":
				want.Err = true
				return want
			case "take", "replace":
				pat := op.Map()
				if op.K == "replace" {
					pat = nil
					if len(op.Sub) > 0 {
						pat = op.Sub[0].Map()
					}
				}
				srs, err := direct.Sys.SearchFacts(ctx(), op.Loc, h.Canon(pat), false)
				if err != nil {
					want.Err = true
					return want
				}
				for _, f := range srs.Found {
					direct.Sys.RemFact(ctx(), op.Loc, f.Id)
				}
				if op.K == "take" {
					want.Payload = h.MapKeyList(h.ObsSearch(srs))
					return want
				}
				r0 := direct.DoSys(ctx(), hs.Req{Op: "addfact", Loc: op.Loc, Id: op.Id, J: op.Map()})
				want.Err = r0 == "ERR"
				want.Payload = h.Canon(op.Id)
				if op.Id == "" {
					want.Payload = "generated"
				}
				return want
			}
			r0 := direct.DoSys(ctx(), opToReq(op))
			want.Err = r0 == "ERR"
			switch op.K {
			case "addfact":
				want.Payload = h.Canon(op.Id)
				if op.Id == "" {
					want.Payload = "generated"
				}
			case "addrule":
				want.Payload = h.Canon(op.Id)
			case "getfact", "search", "listrules", "query":
				want.Payload = r0
			case "event":
				if j := strings.Index(r0, " values="); j >= 0 {
					want.Payload = r0[j+8:]
				}
			}
			return want
		}
		pos := 0
		for b := 0; pos < len(plan.Ops) && res.Viol == nil; b++ {
			k := 1
			if b < len(cuts) {
				k = cuts[b]
			}
			if pos+k > len(plan.Ops) {
				k = len(plan.Ops) - pos
			}
			batch := plan.Ops[pos : pos+k]
			opIdx = pos
			var items []interface{}
			var wants []c18Outcome
			for _, op := range batch {
				wants = append(wants, wantOf(op))
				uri, params := c18Request(op)
				m := map[string]interface{}{"uri": "/api" + uri}
				for key, x := range params {
					if s, isS := x.(string); isS && strings.HasPrefix(s, "RAW:") {
						var y interface{}
						if json.Unmarshal([]byte(s[4:]), &y) == nil {
							m[key] = y
						} else {
							m[key] = s[4:]
						}
						continue
					}
					m[key] = h.Clone(x)
				}
				items = append(items, m)
			}
			var status int
			var body string
			var rerr error
			func() {
				defer func() {
					if x := recover(); x != nil {
						fail("panic", "batch:"+transport, "the batch %s made the service panic: %v", h.Trunc(h.Canon(items), 600), x)
					}
				}()
				if transport == "map" {
					body, rerr = eng.Request(h.NewCtx(h.Prot{}), map[string]interface{}{"uri": "/api/sys/util/batch", "requests": items})
					status = 200
				} else {
					status, body = eng.ServeHTTP("POST", "/api/sys/util/batch", "application/json", h.Canon(map[string]interface{}{"requests": items}), 0)
				}
			}()
			if res.Viol != nil {
				break
			}
			if trace {
				tr = append(tr, fmt.Sprintf("batch %d ops %d..%d via %s -> status %d err=%v body=%s", b, pos, pos+k-1, transport, status, rerr, h.Trunc(body, 500)))
			}
			var arr []json.RawMessage
			if rerr != nil || status != 200 || json.Unmarshal([]byte(strings.TrimSpace(body)), &arr) != nil || len(arr) != k {
				fail("batch-response", transport, "a batch of %d requests (%s) answered status %d error %v with %q: not a JSON list of %d results", k, h.Trunc(h.Canon(items), 500), status, rerr, h.Trunc(body, 400), k)
				break
			}
			for i, op := range batch {
				opIdx = pos + i
				raw := string(arr[i])
				oc := c18Outcome{Raw: raw, Status: 200}
				var em map[string]interface{}
				if json.Unmarshal(arr[i], &em) == nil {
					if _, has := em["error"]; has && len(em) == 1 {
						oc.Err = true
					}
				}
				var s string
				if json.Unmarshal(arr[i], &s) == nil && strings.HasPrefix(s, "bad type") {
					oc.Err = true
				}
				want := wants[i]
				_, params := c18Request(op)
				if oc.Err != want.Err {
					if want.Err {
						fail("error-reported-as-success", "batchitem:"+op.K+":"+op.S+c18Cell(op), "item %d of a batch, %s (%s), succeeded with %q; it must be refused", i, op.K+":"+op.S, h.Trunc(h.Canon(params), 300), h.Trunc(raw, 200))
					} else {
						fail("encoding-changes-outcome", "batchitem:"+op.K, "item %d of a batch, %s (%s), failed with %q; the direct call succeeds", i, op.K, h.Trunc(h.Canon(params), 300), h.Trunc(raw, 200))
					}
					break
				}
				if oc.Err || want.Payload == "" {
					continue
				}
				oc.Payload = c18Payload(op, raw)
				if oc.Payload != want.Payload && stripIds(oc.Payload) != stripIds(want.Payload) {
					fail("encoding-changes-result", "batchitem:"+op.K, "item %d of a batch (%s), %s (%s), returned %s; the direct call gives %s", i, batchKinds(batch), op.K, h.Trunc(h.Canon(params), 300), h.Trunc(oc.Payload, 300), h.Trunc(want.Payload, 300))
					break
				}
				res.Nontrivial = append(res.Nontrivial, fmt.Sprintf("batchitem|%d|%s|%s", i, batchKinds(batch), h.Sha(h.Canon(params))))
			}
			pos += k
		}
		if res.Viol == nil {
			opIdx = len(plan.Ops)
			for _, loc := range []string{"svc1", "svc two"} {
				for _, probe := range []hs.Req{{Op: "search", Loc: loc, J: map[string]interface{}{"k": "?v"}}, {Op: "listrules", Loc: loc}} {
					w0 := direct.DoSys(h.NewCtx(h.Prot{}), probe)
					g := eng.DoSys(h.NewCtx(h.Prot{}), probe)
					if stripIds(g) != stripIds(w0) {
						fail("encoding-changes-effect", "batches:state", "after the history, %s of %q on the engine driven by batches gives %s; the twin driven directly gives %s", probe.Op, loc, h.Trunc(g, 300), h.Trunc(w0, 300))
					}
				}
			}
		}
	})
	if res.Viol == nil && out.Panic != nil {
		res.Viol = &h.Violation{Property: "C18", Class: "harness-panic", Sig: fmt.Sprint(out.Panic), OpIdx: opIdx, Detail: h.Trunc(out.Stack, 1500)}
	}
	res.Trace = tr
	return res
}

func batchKinds(batch []h.Op) string {
	var ks []string
	for _, op := range batch {
		ks = append(ks, op.K)
	}
	return strings.Join(ks, ",")
}
