package worlds

import (
	"encoding/json"
	"fmt"
	"io"
	"log"
	"net/http"
	"os"
	"path/filepath"
	"runtime"
	"sort"
	"strings"
	"sync"
	"testing"
	"time"

	"github.com/boltdb/bolt"
	"github.com/gorhill/cronexpr"

	"github.com/Comcast/rulio/crolt"

	"verif/sim/h"
)

// C16 world B: the Bolt-backed cron service (crolt), real code on the fake
// clock over a real Bolt file, with reopen and crash-copy-reopen between
// operations; deliveries are recorded by a stub http.RoundTripper.

func init() {
	h.Register(&h.World{Prop: "C16", Name: "crolt", Share: 1, Gen: genC16B, Exec: execC16B})
}

type rtFunc func(*http.Request) (*http.Response, error)

func (f rtFunc) RoundTrip(r *http.Request) (*http.Response, error) { return f(r) }

func genC16B(r *h.Rng, tier string, idx int) *h.Plan {
	p := &h.Plan{Cfg: map[string]interface{}{}}
	p.Cfg["partitions"] = r.Range(1, 3)
	p.Cfg["poll_ms"] = r.Pick([]string{"250", "500", "1000"})
	p.Cfg["ttl_s"] = r.Range(5, 30)
	jit := 0
	if r.P(1, 8) {
		jit = r.Range(1, 4)
	}
	p.Cfg["jitter_s"] = jit
	accounts := []string{"acctA", "acctB"}
	ids := []string{"j1", "j2"}
	sleep := func(lo, hi int) {
		// every operation gets its own sub-millisecond residue (2 us more than
		// the previous one), so that no operation ever coincides with a poll of
		// the work loops (whose grid inherits the residue of the last reopen)
		d := time.Duration(r.Range(lo, hi))*time.Millisecond + 2*time.Microsecond
		p.Ops = append(p.Ops, h.Op{K: "sleep", N: int64(d)})
	}
	sleep(1, 900)
	n := r.Range(3, 12)
	for i := 0; i < n; i++ {
		switch r.Weighted([]int{8, 3, 1, 2, 1, 1, 2}) {
		case 0:
			var expr string
			if r.Bool() {
				expr = fmt.Sprintf("%dms", r.Range(300, 7000))
			} else {
				expr = r.Pick([]string{"*/2 * * * * * *", "*/5 * * * * * *", "*/3 * * * * * *"})
			}
			p.Ops = append(p.Ops, h.Op{K: "add", Loc: r.Pick(accounts), Id: r.Pick(ids), S: expr})
		case 1:
			p.Ops = append(p.Ops, h.Op{K: "delete", Loc: r.Pick(accounts), Id: r.Pick(ids)})
		case 2:
			p.Ops = append(p.Ops, h.Op{K: "deleteaccount", Loc: r.Pick(accounts)})
		case 3:
			p.Ops = append(p.Ops, h.Op{K: "reopen", B: false})
		case 4:
			p.Ops = append(p.Ops, h.Op{K: "reopen", B: true}) // crash: the file as it is on disk now
		case 5:
			p.Ops = append(p.Ops, h.Op{K: "get", Loc: r.Pick(accounts), Id: r.Pick(ids)})
		case 6:
			// a removal that arrives while the job is being delivered (the work
			// loop is inside its write transaction): the job has fired for the
			// last time
			op := h.Op{K: "ambush", Loc: r.Pick(accounts), Id: r.Pick(ids)}
			if r.Bool() {
				// ... and the same id is added again at once, with another schedule
				op.S = r.Pick([]string{"*/3 * * * * * *", "4s", "*/7 * * * * * *"})
			}
			p.Ops = append(p.Ops, op)
		}
		sleep(50, 4000)
	}
	return p
}

type croltReg struct {
	acct, id string
	expr     string
	at       time.Time
	oneShot  bool
	due      time.Time
	cx       *cronexpr.Expression
	removed  time.Time
	fires    []time.Time
}

func execC16B(t *testing.T, plan *h.Plan, trace bool) *h.Result {
	res := &h.Result{}
	var tr []string
	h.Arm(90*time.Second, fmt.Sprintf("C16 crolt run_seed=%d", plan.RunSeed))
	defer h.Disarm()
	opIdx := 0
	fail := func(class, sig, f string, a ...interface{}) {
		if res.Viol == nil {
			res.Viol = &h.Violation{Property: "C16", Class: class, Sig: "crolt:" + sig, Detail: fmt.Sprintf(f, a...), OpIdx: opIdx}
		}
	}
	dir, _ := os.MkdirTemp(os.Getenv("VERIF_TMP"), "crolt")
	defer os.RemoveAll(dir)
	oldClient := http.DefaultClient
	defer func() { http.DefaultClient = oldClient }()
	out := h.Bubble(t, func() {
		h.SeedProcess(plan.RunSeed)
		log.SetOutput(io.Discard)
		parts := int(plan.CfgI("partitions", 1))
		var pollMs int
		fmt.Sscanf(plan.CfgS("poll_ms", "1000"), "%d", &pollMs)
		poll := time.Duration(pollMs) * time.Millisecond
		ttl := time.Duration(plan.CfgI("ttl_s", 10)) * time.Second
		jitter := time.Duration(plan.CfgI("jitter_s", 0)) * time.Second
		start := time.Now()
		var mu sync.Mutex
		var regs []*croltReg
		cur := map[string]*croltReg{}
		ambush := map[string]bool{}        // armed: remove the job while its next delivery is in progress
		ambushReadd := map[string]string{} // ... and add the id again with this expression
		ambushDone := make(chan error, 64) // results of those removals
		ambushOut := 0                     // removals started and not yet collected (guarded by mu)
		var liveCron *crolt.Cron
		http.DefaultClient = &http.Client{Transport: rtFunc(func(r *http.Request) (*http.Response, error) {
			key := strings.TrimPrefix(r.URL.Path, "/")
			mu.Lock()
			if g := cur[key]; g != nil {
				g.fires = append(g.fires, time.Now())
				if ambush[key] && g.removed.IsZero() && liveCron != nil {
					delete(ambush, key)
					g.removed = time.Now().Add(time.Nanosecond)
					cc, acct, id, gg := liveCron, g.acct, g.id, g
					readd := ambushReadd[key]
					delete(ambushReadd, key)
					ambushOut++
					go func() {
						err := cc.Delete(acct, id)
						if err != nil {
							// the service was being shut down under it: nothing was removed
							mu.Lock()
							gg.removed = time.Time{}
							mu.Unlock()
						} else if readd != "" {
							now := time.Now()
							if cc.Add(&crolt.Job{Account: acct, Id: id, Expression: readd, Method: "GET", URL: "http://stub/" + key}) == nil {
								g2 := &croltReg{acct: acct, id: id, expr: readd, at: now}
								if d, perr := time.ParseDuration(readd); perr == nil {
									g2.oneShot, g2.due = true, now.Add(d)
								} else {
									g2.cx = cronexpr.MustParse(readd)
								}
								mu.Lock()
								regs = append(regs, g2)
								cur[key] = g2
								mu.Unlock()
							}
						}
						ambushDone <- err
					}()
					mu.Unlock()
					// let the removal get as far as it can while this delivery
					// (and the work loop's transaction around it) is still open
					for i := 0; i < 300; i++ {
						runtime.Gosched()
					}
					return &http.Response{StatusCode: 200, Body: io.NopCloser(strings.NewReader("ok")), Header: http.Header{}}, nil
				}
			} else {
				// a delivery for something that is not registered
				regs = append(regs, &croltReg{acct: key, id: "?", expr: "unregistered", at: time.Now(), removed: time.Now().Add(-time.Nanosecond), fires: []time.Time{time.Now()}, oneShot: true, due: time.Now()})
			}
			mu.Unlock()
			return &http.Response{StatusCode: 200, Body: io.NopCloser(strings.NewReader("ok")), Header: http.Header{}}, nil
		})}
		gen := 0
		file := filepath.Join(dir, "c0.db")
		open := func() (*bolt.DB, *crolt.Cron) {
			db, err := bolt.Open(file, 0o644, &bolt.Options{Timeout: time.Second})
			if err != nil {
				panic(fmt.Sprintf("harness: bolt open: %v", err))
			}
			db.NoSync = true // the file content is what restarts see; fsync costs real time only
			c, err := crolt.NewCron(db, parts, jitter, ttl)
			if err != nil {
				panic(fmt.Sprintf("harness: NewCron: %v", err))
			}
			c.PollingInterval = poll
			mu.Lock()
			liveCron = c // before the work loops start: their first delivery may already be ambushed
			mu.Unlock()
			c.WorkLoops()
			return db, c
		}
		db, c := open()
		liveCron = c
		type span struct{ from, to time.Time }
		var disturbed []span
		checkTables := func() {
			// jobs<p> and time<p> are in bijection through TId (one read transaction)
			db.View(func(tx *bolt.Tx) error {
				for pi := 0; pi < parts; pi++ {
					jobs := map[string]crolt.Job{}
					tims := map[string]crolt.Job{}
					if b := tx.Bucket([]byte(fmt.Sprintf("jobs%d", pi))); b != nil {
						b.ForEach(func(k, v []byte) error {
							var j crolt.Job
							json.Unmarshal(v, &j)
							jobs[string(k)] = j
							return nil
						})
					}
					if b := tx.Bucket([]byte(fmt.Sprintf("time%d", pi))); b != nil {
						b.ForEach(func(k, v []byte) error {
							var j crolt.Job
							json.Unmarshal(v, &j)
							tims[string(k)] = j
							return nil
						})
					}
					for aid, j := range jobs {
						if _, ok := tims[j.TId]; !ok {
							fail("job-without-time-entry", "tables", "partition %d: job %s has TId %q which is not in the time index %v", pi, aid, j.TId, keysOf(tims))
						}
					}
					for tid, j := range tims {
						aid := j.Account + "," + j.Id
						jj, ok := jobs[aid]
						if !ok {
							fail("time-entry-without-job", "tables", "partition %d: time entry %q has no job %s", pi, tid, aid)
						} else if jj.TId != tid {
							fail("stale-time-entry", "tables", "partition %d: time entry %q is stale, job %s is now at %q", pi, tid, aid, jj.TId)
						}
					}
				}
				return nil
			})
		}
		for i, op := range plan.Ops {
			opIdx = i
			if res.Viol != nil {
				break
			}
			key := op.Loc + "/" + op.Id
			// a removal started during a delivery is over before the next operation begins
			drain := func() {
				for {
					mu.Lock()
					n := ambushOut
					mu.Unlock()
					if n == 0 {
						return
					}
					<-ambushDone
					mu.Lock()
					ambushOut--
					mu.Unlock()
				}
			}
			switch op.K {
			case "sleep":
				time.Sleep(time.Duration(op.N))
				drain()
				continue
			case "add":
				now := time.Now()
				j := &crolt.Job{Account: op.Loc, Id: op.Id, Expression: op.S, Method: "GET", URL: "http://stub/" + key}
				err := c.Add(j)
				mu.Lock()
				old := cur[key]
				exists := old != nil && old.removed.IsZero() && !(old.oneShot && len(old.fires) > 0 && now.After(old.fires[0].Add(ttl)))
				mu.Unlock()
				if err == crolt.Exists {
					if !exists && old == nil {
						fail("add-exists-unknown", "add", "Add(%s) says the job exists but it was never added", key)
					}
					break
				}
				if err != nil {
					fail("add-refused", "add", "Add(%s, %q) returned %v", key, op.S, err)
					break
				}
				g := &croltReg{acct: op.Loc, id: op.Id, expr: op.S, at: now}
				if d, perr := time.ParseDuration(op.S); perr == nil {
					g.oneShot, g.due = true, now.Add(d)
				} else {
					g.cx = cronexpr.MustParse(op.S)
				}
				mu.Lock()
				if old != nil && old.removed.IsZero() {
					old.removed = now
				}
				regs = append(regs, g)
				cur[key] = g
				mu.Unlock()
			case "delete":
				mu.Lock()
				if g := cur[key]; g != nil && g.removed.IsZero() {
					g.removed = time.Now()
				}
				mu.Unlock()
				if err := c.Delete(op.Loc, op.Id); err != nil {
					fail("delete-failed", "delete", "Delete(%s) returned %v", key, err)
				}
			case "deleteaccount":
				mu.Lock()
				for k, g := range cur {
					if strings.HasPrefix(k, op.Loc+"/") && g.removed.IsZero() {
						g.removed = time.Now()
					}
				}
				mu.Unlock()
				if err := c.DeleteAccount(op.Loc); err != nil {
					fail("delete-failed", "deleteaccount", "DeleteAccount(%s) returned %v", op.Loc, err)
				}
			case "ambush":
				mu.Lock()
				if g := cur[key]; g != nil && g.removed.IsZero() {
					ambush[key] = true
					ambushReadd[key] = op.S
				}
				mu.Unlock()
			case "get":
				j, err := c.Get(op.Loc, op.Id)
				mu.Lock()
				g := cur[key]
				mu.Unlock()
				if g != nil && g.removed.IsZero() && !g.oneShot && (err != nil || j == nil) {
					fail("get-missing", "get", "Get(%s) = %v although the recurring job is registered", key, err)
				}
				if (g == nil || (!g.removed.IsZero() && g.removed.Before(time.Now()))) && err == nil {
					fail("get-stale", "get", "Get(%s) returned a job that was deleted (or never added)", key)
				}
			case "reopen":
				from := time.Now()
				gen++
				next := filepath.Join(dir, fmt.Sprintf("c%d.db", gen))
				if op.B {
					bs, _ := os.ReadFile(file)
					os.WriteFile(next, bs, 0o644)
					db.Close()
				} else {
					db.Close()
					bs, _ := os.ReadFile(file)
					os.WriteFile(next, bs, 0o644)
				}
				file = next
				db, c = open()
				mu.Lock()
				liveCron = c
				mu.Unlock()
				disturbed = append(disturbed, span{from, time.Now().Add(2 * poll)})
			}
			if trace {
				tr = append(tr, fmt.Sprintf("[+%v] op %d: %s", time.Since(start), i, op.String()))
			}
			checkTables()
		}
		opIdx = len(plan.Ops)
		time.Sleep(40 * time.Second)
		end := time.Now()
		checkTables()
		isDisturbed := func(a, b time.Time) bool {
			for _, s := range disturbed {
				if s.from.Before(b) && a.Before(s.to) {
					return true
				}
			}
			return false
		}
		mu.Lock()
		defer mu.Unlock()
		nf := 0
		for _, g := range regs {
			nf += len(g.fires)
			sort.Slice(g.fires, func(i, j int) bool { return g.fires[i].Before(g.fires[j]) })
			if trace {
				tr = append(tr, fmt.Sprintf("reg %s/%s %q at +%v removed=%v fires=%v", g.acct, g.id, g.expr, g.at.Sub(start), !g.removed.IsZero(), relTimes(g.fires, start)))
			}
			res.Nontrivial = append(res.Nontrivial, fmt.Sprintf("%s|%d|%v|%v", g.expr, len(g.fires), !g.removed.IsZero(), jitter))
			if g.expr == "unregistered" {
				fail("delivery-for-unregistered-job", "delivery", "a delivery for %s arrived at +%v although no such job is registered", g.acct, g.at.Sub(start))
				continue
			}
			if g.oneShot {
				if len(g.fires) > 1 {
					fail("one-shot-fired-twice", "oneshot", "one-shot job %s/%s (%s) was delivered %d times: %v", g.acct, g.id, g.expr, len(g.fires), relTimes(g.fires, start))
				}
				for _, f := range g.fires {
					if f.Before(g.due) {
						fail("fired-early", "oneshot", "one-shot job %s/%s due at +%v was delivered at +%v", g.acct, g.id, g.due.Sub(start), f.Sub(start))
					}
					if !g.removed.IsZero() && g.removed.Before(g.due) {
						fail("fired-after-removal", "oneshot", "one-shot job %s/%s removed at +%v (due +%v) was delivered at +%v", g.acct, g.id, g.removed.Sub(start), g.due.Sub(start), f.Sub(start))
					}
				}
				stillThere := g.removed.IsZero() || g.removed.After(g.due.Add(3*poll))
				if len(g.fires) == 0 && stillThere && g.due.Before(end.Add(-5*time.Second)) && !isDisturbed(g.due, g.due.Add(3*poll)) {
					fail("one-shot-never-fired", "oneshot", "one-shot job %s/%s (%s) due at +%v was never delivered (service polling every %v until +%v)", g.acct, g.id, g.expr, g.due.Sub(start), poll, end.Sub(start))
				}
				continue
			}
			if jitter > 0 {
				continue // with jitter the stored due time differs from the occurrence; only the table invariants are judged
			}
			prev := g.at
			for k, f := range g.fires {
				var occ []time.Time
				o := g.cx.Next(prev)
				for !o.IsZero() && !o.After(f) {
					occ = append(occ, o)
					o = g.cx.Next(o)
				}
				if len(occ) == 0 {
					fail("fired-without-occurrence", "recurring", "recurring job %s/%s (%s) was delivered at +%v with no occurrence due since +%v", g.acct, g.id, g.expr, f.Sub(start), prev.Sub(start))
					break
				}
				last := occ[len(occ)-1]
				if !g.removed.IsZero() && g.removed.Before(last) {
					fail("fired-after-removal", "recurring", "recurring job %s/%s removed at +%v was delivered at +%v for the occurrence due at +%v", g.acct, g.id, g.removed.Sub(start), f.Sub(start), last.Sub(start))
					break
				}
				if len(occ) > 1 && k > 0 && !isDisturbed(prev, f) {
					period := occ[1].Sub(occ[0])
					if poll*4 <= period {
						fail("occurrence-skipped", "recurring", "recurring job %s/%s (%s, polling %v) skipped %d occurrence(s) between deliveries at +%v and +%v", g.acct, g.id, g.expr, poll, len(occ)-1, prev.Sub(start), f.Sub(start))
						break
					}
				}
				prev = f
			}
		}
		res.Count("job_fires", int64(nf))
		res.SimNanos = int64(time.Since(start))
		db.Close()
	})
	if res.Viol == nil && out.Panic != nil {
		res.Viol = &h.Violation{Property: "C16", Class: "panic", Sig: "crolt", OpIdx: opIdx, Detail: fmt.Sprintf("%v\n%s", out.Panic, h.Trunc(out.Stack, 1500))}
	}
	res.Trace = tr
	return res
}

func keysOf(m map[string]crolt.Job) []string {
	var ks []string
	for k := range m {
		ks = append(ks, k)
	}
	sort.Strings(ks)
	return ks
}
