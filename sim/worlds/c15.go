package worlds

import (
	"os"
	"fmt"
	"sort"
	"strings"
	"testing"
	"time"

	"github.com/gorhill/cronexpr"

	"github.com/Comcast/rulio/core"
	"github.com/Comcast/rulio/cron"
	"github.com/Comcast/rulio/sys"

	"verif/sim/h"
	"verif/sim/hs"
)

// C15 — scheduled rules run when due, per location, and never after removal.

func init() {
	h.Register(&h.World{Prop: "C15", Name: "scheduled", Gen: genC15, Exec: execC15})
}

func genC15(r *h.Rng, tier string, idx int) *h.Plan {
	p := &h.Plan{Cfg: map[string]interface{}{}}
	p.Cfg["state"] = r.Pick([]string{"indexed", "linear"})
	p.Cfg["cron"] = r.Pick([]string{"sim-persistent", "sim-ephemeral", "internal"})
	p.Cfg["ctx"] = r.Pick([]string{"fresh", "fresh", "shared"})
	// location-cache TTL (never only with the persistent simulated cron service:
	// the System refuses a non-persistent cron together with locations that
	// leave the cache)
	p.Cfg["ttl"] = r.Pick([]string{"forever", "forever", "never"})
	nl := r.Range(2, 3)
	locs := []string{"S0", "S1", "S2"}[:nl]
	p.Cfg["locs"] = toIface(locs)
	ids := []string{"t1", "t2"}
	sleep := func(lo, hi int) {
		p.Ops = append(p.Ops, h.Op{K: "sleep", N: int64(time.Duration(r.Range(lo, hi))*time.Millisecond + 2*time.Microsecond)})
	}
	sleep(1, 900)
	lastSched := map[string]string{}
	n := r.Range(4, 14)
	for i := 0; i < n; i++ {
		loc := r.Pick(locs)
		id := r.Pick(ids)
		switch r.Weighted([]int{9, 2, 1, 3, 1, 1, 1, 1, 1, 1, 3}) {
		case 0:
			var sched string
			switch r.Intn(4) {
			case 0:
				sched = fmt.Sprintf("+%ds", r.Range(1, 8))
			case 1:
				sched = "!REL" + fmt.Sprint(r.Range(1, 8))
			case 2:
				sched = "*/2 * * * * * *"
			default:
				sched = "*/5 * * * * * *"
			}
			if p.Cfg["cron"] == "internal" && p.Cfg["ttl"] == "never" && strings.HasPrefix(sched, "+") {
				// a relative delay is measured from each registration, and here
				// every request registers again: use an absolute instant instead
				sched = "!REL" + sched[1:len(sched)-1]
			}
			if prev, ok := lastSched[loc+"/"+id]; ok && r.P(1, 3) {
				sched = prev // the same rule written again, unchanged schedule
			}
			lastSched[loc+"/"+id] = sched
			op := h.Op{K: "addsched", Loc: loc, Id: id, S: sched}
			if r.P(1, 6) {
				op.B = true // deleteWith the anchor fact
			}
			if r.P(1, 6) {
				op.N = int64(r.Range(2, 9)) // ttl in seconds
			}
			// "each due tick evaluates that rule (condition, then actions)": none / holds / finds nothing
			op.C = r.Weighted([]int{6, 2, 2, 3}) // 3: the condition asks for the location's "gate" fact
			if r.P(1, 5) {
				// the rule's body carries an "id" of its own (that of the anchor
				// fact): the rule is the one stored under the id it was added with
				op.WK = "ownid"
			}
			p.Ops = append(p.Ops, op)
		case 1:
			p.Ops = append(p.Ops, h.Op{K: "addplain", Loc: loc, Id: id})
		case 2:
			p.Ops = append(p.Ops, h.Op{K: "addfact", Loc: loc, Id: id})
		case 3:
			p.Ops = append(p.Ops, h.Op{K: "remrule", Loc: loc, Id: id})
		case 4:
			p.Ops = append(p.Ops, h.Op{K: "remanchor", Loc: loc})
		case 5:
			p.Ops = append(p.Ops, h.Op{K: "clear", Loc: loc})
		case 6:
			p.Ops = append(p.Ops, h.Op{K: "restart"})
		case 7:
			p.Ops = append(p.Ops, h.Op{K: "dupticks"}) // the cron service delivers every pending tick twice (SimCron only)
		case 8:
			p.Ops = append(p.Ops, h.Op{K: "staletick", Loc: loc, Id: id}) // a tick for an id arrives although nothing is registered (SimCron only)
		case 9:
			p.Ops = append(p.Ops, h.Op{K: "delete", Loc: loc}) // DeleteLocation: everything in it is gone, scheduled rules included
		case 10:
			// the fact that gated conditions ask for appears or disappears: a tick
			// evaluates the condition in the location as it is at that moment
			p.Ops = append(p.Ops, h.Op{K: "gate", Loc: loc, B: r.P(2, 3)})
		}
		sleep(100, 4000)
	}
	return p
}

type c15Item struct {
	kind    string // sched | plain | fact
	gen     int
	marker  string
	sched   string
	oneShot bool
	due     time.Time // one-shot
	expr    *cronexpr.Expression
	regs    []time.Time // registration instants (add, and reload with an ephemeral cron)
	added   time.Time
	end     time.Time // removal/replacement/expiry instant (zero: still live)
	dw      bool
	fired   bool // one-shot known to have fired
	condNo  bool // its condition finds nothing: ticks are evaluated, the action never runs
	gated   bool // its condition holds while the location holds the "gate" fact
	expires bool // `end` is an expiry instant: a tick due exactly then finds the rule expired
}

func execC15(t *testing.T, plan *h.Plan, trace bool) *h.Result {
	res := &h.Result{}
	var tr []string
	h.Arm(60*time.Second, fmt.Sprintf("C15 run_seed=%d", plan.RunSeed))
	defer h.Disarm()
	opIdx := 0
	state := plan.CfgS("state", "indexed")
	cronKind := plan.CfgS("cron", "sim-persistent")
	ctxMode := plan.CfgS("ctx", "fresh")
	fail := func(class, sig, f string, a ...interface{}) {
		if res.Viol == nil {
			res.Viol = &h.Violation{Property: "C15", Class: class, Sig: state + ":" + cronKind + ":" + ctxMode + ":" + sig, Detail: fmt.Sprintf(f, a...), OpIdx: opIdx}
		}
	}
	out := h.Bubble(t, func() {
		h.SeedProcess(plan.RunSeed)
		h.ResetParams()
		start := time.Now()
		mem, _ := core.NewMemStorage(nil)
		store := h.NewSimStorage(mem)
		var simc *hs.SimCron
		var icron *cron.Cron
		// executions are recorded outside the locations (Clear must not erase
		// the record): every action sends "<location it runs in>|<marker>" to
		// the channel its context carries
		execs := make(chan interface{}, 100000)
		newCtx := func() *core.Context {
			c := h.NewCtx(h.Prot{})
			c.AddProp("out", execs)
			return c
		}
		shared := newCtx()
		ctxFor := func() *core.Context {
			if ctxMode == "shared" {
				return shared
			}
			return newCtx()
		}
		counts := map[string]int{}
		mkCron := func() cron.Cronner {
			switch cronKind {
			case "internal":
				if icron != nil {
					icron.Kill(h.NewCtx(h.Prot{}))
				}
				icron, _ = cron.NewCron(cron.NewCronBroadcaster(), time.Second, "sim", 100000)
				icron.Start(h.NewCtx(h.Prot{}))
				return &cron.InternalCron{Cron: icron}
			case "sim-ephemeral":
				simc = hs.NewSimCron(false)
				return simc
			default:
				if simc == nil {
					simc = hs.NewSimCron(true)
				}
				return simc
			}
		}
		var eng *hs.SvcEngine
		boot := func() {
			var err error
			ttl := sys.Forever
			if plan.CfgS("ttl", "forever") == "never" && cronKind != "sim-ephemeral" {
				// (the in-memory cron with locations that leave the cache is a
				// combination the System only accepts with RULES_CRON_OVERRIDE:
				// every load registers the location's scheduled rules again, with
				// the service that still holds the previous registrations)
				os.Setenv("RULES_CRON_OVERRIDE", "1")
				ttl = sys.Never
			}
			eng, err = hs.NewSvcEngine(hs.SvcConfig{State: state, TTL: ttl, MaxFacts: 100000}, store, mkCron())
			if err != nil {
				panic(err)
			}
		}
		boot()
		locs := []string{}
		if xs, ok := plan.Cfg["locs"].([]interface{}); ok {
			for _, x := range xs {
				locs = append(locs, x.(string))
			}
		}
		// per location: the instants at which the "gate" fact appeared (even index) and disappeared (odd index)
		gateFlips := map[string][]time.Time{}
		gateAt := func(loc string, at time.Time) bool {
			on := false
			for i, f := range gateFlips[loc] {
				if f.After(at) {
					break
				}
				on = i%2 == 0
			}
			return on
		}
		setGate := func(loc string, on bool, at time.Time) {
			cur := len(gateFlips[loc])%2 == 1
			if cur != on {
				gateFlips[loc] = append(gateFlips[loc], at)
			}
		}
		items := map[string]*c15Item{} // current item per loc/id
		var all []*c15Item
		gen := 0
		for _, l := range locs {
			eng.Sys.AddFact(ctxFor(), l, "anchor", `{"anchor":"here"}`)
		}
		endItem := func(key string, when time.Time) {
			if it := items[key]; it != nil && (it.end.IsZero() || when.Before(it.end)) {
				it.end = when
				it.expires = false
			}
			delete(items, key)
		}
		deliver := func() {
			if simc == nil {
				return
			}
			for _, reg := range simc.Due(time.Now()) {
				// a tick: the cron service posts the event to the rule's own location
				eng.Sys.ProcessEvent(newCtx(), reg.Loc, reg.Event)
			}
		}
		// expected number of executions of an item up to now
		expected := func(it *c15Item, now time.Time) (lo, hi int) {
			if it.kind != "sched" {
				return 0, 0
			}
			end := now
			if !it.end.IsZero() && it.end.Before(end) {
				end = it.end
				if it.expires {
					end = end.Add(-time.Nanosecond)
				}
			}
			if it.oneShot {
				n := 0
				for k, reg := range it.regs {
					due := it.due
					if strings.HasPrefix(it.sched, "+") && k > 0 {
						d, _ := time.ParseDuration(it.sched[1:])
						due = reg.Add(d)
					}
					regEnd := end
					if k+1 < len(it.regs) && it.regs[k+1].Before(regEnd) {
						regEnd = it.regs[k+1]
					}
					if !due.After(regEnd) && due.After(reg.Add(-time.Nanosecond)) || (strings.HasPrefix(it.sched, "!") && !due.After(regEnd)) {
						n = 1
						if it.gated && !gateAt(strings.SplitN(it.marker, "/", 2)[0], due) {
							n = 0
						}
					}
				}
				return n, n
			}
			n := 0
			for k, reg := range it.regs {
				regEnd := end
				if k+1 < len(it.regs) && it.regs[k+1].Before(regEnd) {
					regEnd = it.regs[k+1]
				}
				o := it.expr.Next(reg)
				for !o.IsZero() && !o.After(regEnd) {
					if !it.gated || gateAt(strings.SplitN(it.marker, "/", 2)[0], o) {
						n++
					}
					o = it.expr.Next(o)
				}
			}
			return n, n
		}
		checkpoint := func(what string) {
			deliver()
			synctestSettle()
			now := time.Now()
			for drained := false; !drained; {
				select {
				case x := <-execs:
					counts[fmt.Sprint(x)]++
				default:
					drained = true
				}
			}
			seen := map[string]bool{}
			for _, it := range all {
				loc := strings.SplitN(it.marker, "/", 2)[0]
				got := counts[loc+"|"+it.marker]
				seen[loc+"|"+it.marker] = true
				lo, hi := expected(it, now)
				ticked := lo >= 1 // a tick that was due while the rule was registered has been delivered
				if it.gated {
					it.gated = false
					l0, _ := expected(it, now)
					it.gated = true
					ticked = l0 >= 1
				}
				if it.condNo {
					lo, hi = 0, 0
				}
				if got > hi {
					why := "more often than it was due"
					if !it.end.IsZero() {
						why = fmt.Sprintf("although it was removed/replaced at +%v", it.end.Sub(start))
					}
					fail("executed-too-often", "sound:"+schedKind(it), "%s: rule %s (schedule %q, registered %v) has run %d times by +%v, %s (expected %d)", what, it.marker, it.sched, relTimes(it.regs, start), got, now.Sub(start), why, hi)
				}
				if got < lo {
					fail("tick-lost", "complete:"+schedKind(it), "%s: rule %s (schedule %q, registered %v, live until %s) has run %d times by +%v, expected %d", what, it.marker, it.sched, relTimes(it.regs, start), endStr(it, start), got, now.Sub(start), lo)
				}
				if it.oneShot && (got >= 1 || (it.condNo || it.gated) && ticked) && it.end.IsZero() {
					// a one-shot rule is deleted once it has run
					it.fired = true
				}
			}
			for k, n := range counts {
				if seen[k] {
					continue
				}
				fail("executed-in-wrong-location", "sound:location", "%s: %d execution(s) recorded as %s (an action ran in a location that does not own the rule)", what, n, k)
			}
			// one-shot rules that ran are gone
			for key, it := range items {
				if it.kind == "sched" && it.oneShot && it.fired {
					loc := strings.SplitN(key, "/", 2)[0]
					ids, _ := eng.Sys.ListRules(newCtx(), loc, false)
					for _, id := range ids {
						if loc+"/"+id == key {
							fail("one-shot-rule-not-deleted", "oneshot", "%s: one-shot rule %s has run but is still listed", what, it.marker)
						}
					}
					it.end = now
					delete(items, key)
				}
			}
			// "registered with the cron service exactly while it exists": what the
			// (simulated) cron service holds must belong to a scheduled rule that has
			// not been removed, replaced, cleared or deleted.  (A rule that merely
			// expired may stay registered until a tick or a read notices.)
			if simc != nil {
				for _, key := range simc.Registered() {
					it := items[key]
					if it == nil || it.kind != "sched" {
						fail("registration-outlives-rule", "registered", "%s: the cron service still holds a registration for %s, which is no scheduled rule any more", what, key)
					}
				}
			}
		}
		for i, op := range plan.Ops {
			opIdx = i
			if res.Viol != nil {
				break
			}
			key := op.Loc + "/" + op.Id
			now := time.Now()
			switch op.K {
			case "sleep":
				// while time passes the simulated cron service delivers each tick at its due instant
				until := time.Now().Add(time.Duration(op.N))
				for {
					next := until
					if simc != nil {
						if nd := simc.NextDue(); !nd.IsZero() && nd.Before(next) {
							next = nd
						}
					}
					if d := time.Until(next); d > 0 {
						time.Sleep(d)
					}
					deliver()
					if !time.Now().Before(until) {
						break
					}
				}
				// ttl expiry
				for k, it := range items {
					_ = k
					_ = it
				}
				checkpoint("after sleep")
				continue
			case "addsched":
				gen++
				sched := op.S
				it := &c15Item{kind: "sched", gen: gen, marker: fmt.Sprintf("%s/%s/g%d", op.Loc, op.Id, gen), added: now, dw: op.B}
				if strings.HasPrefix(sched, "!REL") {
					var k int
					fmt.Sscanf(sched, "!REL%d", &k)
					due := now.Add(time.Duration(k) * time.Second).Truncate(time.Second)
					sched = "!" + due.UTC().Format(time.RFC3339)
					it.oneShot, it.due = true, due
				} else if strings.HasPrefix(sched, "+") {
					d, _ := time.ParseDuration(sched[1:])
					it.oneShot, it.due = true, now.Add(d)
				} else {
					it.expr = cronexpr.MustParse(sched)
				}
				it.sched = sched
				rule := map[string]interface{}{"schedule": sched, "action": map[string]interface{}{"code": fmt.Sprintf("Env.out(Env.Location + '|%s'); 'ran'", it.marker)}}
				if op.B {
					rule["deleteWith"] = []interface{}{"anchor"}
				}
				if op.N > 0 {
					rule["ttl"] = fmt.Sprintf("%ds", op.N)
				}
				if op.WK == "ownid" {
					rule["id"] = "anchor"
				}
				switch op.C {
				case 1:
					rule["condition"] = map[string]interface{}{"code": "true"}
				case 2:
					rule["condition"] = map[string]interface{}{"code": "false"}
					it.condNo = true
				case 3:
					rule["condition"] = map[string]interface{}{"pattern": map[string]interface{}{"gate": "?g"}}
					it.gated = true
				}
				_, err := eng.Sys.AddRule(ctxFor(), op.Loc, op.Id, h.Canon(rule))
				if err != nil {
					fail("add-refused", "addsched", "AddRule(%s, %s) failed: %v", key, h.Canon(rule), err)
					break
				}
				endItem(key, now)
				it.regs = []time.Time{now}
				if op.N > 0 {
					it.end = now.Add(time.Duration(op.N) * time.Second).Truncate(time.Second)
					it.expires = true
				}
				if op.B && !anchorLive(eng, op.Loc, newCtx()) {
					// deleteWith names an id that does not exist: stays
				}
				items[key] = it
				all = append(all, it)
			case "addplain":
				gen++
				rule := map[string]interface{}{"when": map[string]interface{}{"pattern": map[string]interface{}{"never": "sent"}}, "action": map[string]interface{}{"code": "1"}}
				if _, err := eng.Sys.AddRule(ctxFor(), op.Loc, op.Id, h.Canon(rule)); err != nil {
					fail("add-refused", "addplain", "AddRule(%s) failed: %v", key, err)
					break
				}
				endItem(key, now)
				items[key] = &c15Item{kind: "plain", gen: gen, marker: fmt.Sprintf("%s/%s/g%d", op.Loc, op.Id, gen), added: now}
			case "addfact":
				gen++
				if _, err := eng.Sys.AddFact(ctxFor(), op.Loc, op.Id, `{"plain":"data"}`); err != nil {
					fail("add-refused", "addfact", "AddFact(%s) failed: %v", key, err)
					break
				}
				endItem(key, now)
				items[key] = &c15Item{kind: "fact", gen: gen, marker: fmt.Sprintf("%s/%s/g%d", op.Loc, op.Id, gen), added: now}
			case "remrule":
				eng.Sys.RemRule(ctxFor(), op.Loc, op.Id)
				endItem(key, now)
			case "gate":
				if op.B {
					if _, err := eng.Sys.AddFact(ctxFor(), op.Loc, "gate", `{"gate":"open"}`); err == nil {
						setGate(op.Loc, true, now)
					}
				} else {
					if _, err := eng.Sys.RemFact(ctxFor(), op.Loc, "gate"); err == nil {
						setGate(op.Loc, false, now)
					}
				}
			case "remanchor":
				eng.Sys.RemFact(ctxFor(), op.Loc, "anchor")
				for k, it := range items {
					if strings.HasPrefix(k, op.Loc+"/") && it.dw {
						endItem(k, now)
					}
				}
			case "clear":
				eng.Sys.ClearLocation(ctxFor(), op.Loc)
				setGate(op.Loc, false, now)
				for k := range items {
					if strings.HasPrefix(k, op.Loc+"/") {
						endItem(k, now)
					}
				}
				for _, it := range all {
					_ = it
				}
			case "delete":
				eng.Sys.DeleteLocation(ctxFor(), op.Loc)
				setGate(op.Loc, false, now)
				for k := range items {
					if strings.HasPrefix(k, op.Loc+"/") {
						endItem(k, now)
					}
				}
			case "restart":
				boot()
				// every location is used again right away (which loads it)
				for _, l := range locs {
					eng.Sys.GetFact(ctxFor(), l, "anchor")
				}
				if cronKind != "sim-persistent" {
					for _, it := range items {
						if it.kind == "sched" && it.end.IsZero() || (it.kind == "sched" && it.end.After(now)) {
							it.regs = append(it.regs, now)
						}
					}
				}
				res.Count("restarts", 1)
			case "dupticks":
				if simc != nil {
					for _, reg := range simc.Due(time.Now()) {
						eng.Sys.ProcessEvent(newCtx(), reg.Loc, reg.Event)
						eng.Sys.ProcessEvent(newCtx(), reg.Loc, reg.Event)
						res.Count("fault.duplicate-tick", 1)
					}
				}
			case "staletick":
				if simc != nil {
					if it := items[key]; it == nil || it.kind != "sched" {
						eng.Sys.ProcessEvent(newCtx(), op.Loc, fmt.Sprintf(`{"trigger!":"%s"}`, op.Id))
						res.Count("fault.stale-tick", 1)
					}
				}
			}
			if trace {
				tr = append(tr, fmt.Sprintf("[+%v] op %d: %s", time.Since(start), i, op.String()))
			}
			checkpoint("after " + op.K)
		}
		opIdx = len(plan.Ops)
		if res.Viol == nil {
			until := time.Now().Add(12 * time.Second)
			for {
				next := until
				if simc != nil {
					if nd := simc.NextDue(); !nd.IsZero() && nd.Before(next) {
						next = nd
					}
				}
				if d := time.Until(next); d > 0 {
					time.Sleep(d)
				}
				deliver()
				if !time.Now().Before(until) {
					break
				}
			}
			checkpoint("at the end")
		}
		if trace {
			for _, it := range all {
				lo, _ := expected(it, time.Now())
				tr = append(tr, fmt.Sprintf("item %s kind=%s sched=%q regs=%v end=%s expected=%d", it.marker, it.kind, it.sched, relTimes(it.regs, start), endStr(it, start), lo))
			}
			if simc != nil {
				tr = append(tr, fmt.Sprintf("cron registrations at the end: %v", simc.Registered()))
			}
		}
		res.SimNanos = int64(time.Since(start))
		nsched := 0
		for _, it := range all {
			if it.kind == "sched" {
				nsched++
				lo, _ := expected(it, time.Now())
				res.Nontrivial = append(res.Nontrivial, fmt.Sprintf("%s|%s|%d|%v", cronKind, schedKind(it), lo, !it.end.IsZero()))
			}
		}
		res.Count("scheduled_rules", int64(nsched))
		if icron != nil {
			icron.Kill(h.NewCtx(h.Prot{}))
		}
	})
	if res.Viol == nil {
		if out.Deadlock {
			res.Viol = &h.Violation{Property: "C15", Class: "deadlock", Sig: state + ":" + cronKind, OpIdx: opIdx, Detail: out.Msg}
		} else if out.Panic != nil {
			res.Viol = &h.Violation{Property: "C15", Class: "panic", Sig: state + ":" + cronKind + ":" + fmt.Sprint(out.Panic), OpIdx: opIdx, Detail: h.Trunc(out.Stack, 1500)}
		}
	}
	res.Trace = tr
	return res
}

// (every request of this world carries the "out" property: with a cache TTL of never
// any request may be the one that loads a location and registers its scheduled rules,
// whose actions then report through that request's context)
func anchorLive(e *hs.SvcEngine, loc string, ctx *core.Context) bool {
	_, err := e.Sys.GetFact(ctx, loc, "anchor")
	return err == nil
}

func schedKind(it *c15Item) string {
	switch {
	case strings.HasPrefix(it.sched, "+"):
		return "plus"
	case strings.HasPrefix(it.sched, "!"):
		return "abs"
	}
	return "expr"
}

func endStr(it *c15Item, start time.Time) string {
	if it.end.IsZero() {
		return "the end"
	}
	return "+" + it.end.Sub(start).String()
}

var _ = sort.Strings
