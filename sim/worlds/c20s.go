//go:build simrt

package worlds

import (
	"fmt"
	"testing"
	"time"

	"github.com/Comcast/rulio/core"
	"github.com/Comcast/rulio/zzverif/simrt"

	"verif/sim/h"
)

// C20, "under any concurrency": N simulated callers share one OutboundBreaker
// whose interval is far longer than the run (nothing ages out), each calling
// Zap a few times; the token scheduler moves between them at the breaker's
// lock operations.  However the calls interleave, exactly min(limit, calls)
// are admitted.

func init() {
	h.Register(&h.World{Prop: "C20", Name: "breakersched", Share: 1, Gen: genC20Sched, Exec: execC20Sched})
}

func genC20Sched(r *h.Rng, tier string, idx int) *h.Plan {
	p := &h.Plan{Cfg: map[string]interface{}{}}
	p.Cfg["limit"] = r.Range(1, 4)
	nc := r.Range(2, 6)
	p.Cfg["clients"] = nc
	p.Cfg["pct_depth"] = r.Range(0, 4)
	p.Tape.Seed = r.U64()
	p.Tape.MapOrder = "sorted"
	for c := 0; c < nc; c++ {
		p.Ops = append(p.Ops, h.Op{K: "zap", C: c, N: int64(r.Range(1, 3))})
	}
	return p
}

func execC20Sched(t *testing.T, plan *h.Plan, trace bool) *h.Result {
	res := &h.Result{}
	h.Arm(60*time.Second, fmt.Sprintf("C20 breakersched run_seed=%d", plan.RunSeed))
	defer h.Disarm()
	limit := plan.CfgI("limit", 1)
	nc := int(plan.CfgI("clients", 2))
	run := func(tape simrt.Tape, tr bool) (simrt.Report, []string, int, int) {
		h.SeedProcess(plan.RunSeed)
		b, err := core.NewOutboundBreaker(limit, time.Hour)
		if err != nil {
			panic(err)
		}
		admitted := make([]int, nc)
		calls := 0
		clients := map[string]func(){}
		for _, op := range plan.Ops {
			op := op
			if op.C >= nc {
				continue
			}
			calls += int(op.N)
			clients[fmt.Sprintf("c%d", op.C)] = func() {
				for k := int64(0); k < op.N; k++ {
					if b.Zap() {
						admitted[op.C]++
					}
				}
			}
		}
		rep, ev := simrt.Run(tape, tr, 200000, clients)
		total := 0
		for _, a := range admitted {
			total += a
		}
		return rep, ev, total, calls
	}
	tape := simTape(plan)
	depth := int(plan.CfgI("pct_depth", 0))
	if plan.Tape.Preempt == nil && depth > 0 {
		dry, _, _, _ := run(simrt.Tape{Seed: plan.Tape.Seed, Preempt: map[int64]bool{}, MapOrder: "sorted"}, false)
		pts := choosePreemptions(plan.Tape.Seed, depth, dry.Yields)
		tape.Preempt = map[int64]bool{}
		for _, s := range pts {
			tape.Preempt[s] = true
		}
		plan = plan.Clone()
		plan.Tape.Preempt = pts
		if plan.Tape.Preempt == nil {
			plan.Tape.Preempt = []int64{}
		}
	}
	rep, ev, total, calls := run(tape, trace)
	res.Count("yield_points", rep.Yields)
	res.Count("task_switches", rep.Switches)
	res.Count("preemptions", rep.Preempted)
	res.Count("breaker_calls", int64(calls))
	res.Count("breaker_admissions", int64(total))
	if trace {
		res.Trace = ev
	}
	viol := func(class, sig, f string, a ...interface{}) {
		res.Viol = &h.Violation{Property: "C20", Class: class, Sig: "breakersched:" + sig, Detail: fmt.Sprintf(f, a...), OpIdx: 0}
		res.PlanOverride = plan
	}
	switch {
	case rep.Panic != nil:
		viol("panic", panicSite(rep.PanicStack), "task %s panicked: %v\n%s", rep.PanicTask, rep.Panic, h.Trunc(rep.PanicStack, 1500))
		return res
	case rep.Deadlock:
		viol("deadlock", "scheduler", "no task can run: %s", rep.WaitGraph)
		return res
	case rep.Livelock:
		viol("livelock", "scheduler", "step budget exhausted")
		return res
	}
	want := calls
	if int64(want) > limit {
		want = int(limit)
	}
	if total > int(limit) {
		viol("window-exceeded", "concurrent", "limit %d per hour, %d callers making %d calls in all: %d were admitted", limit, nc, calls, total)
	} else if total < want {
		viol("admission-lost", "concurrent", "limit %d per hour, %d callers making %d calls in all: only %d were admitted", limit, nc, calls, total)
	}
	if rep.Switches > 0 {
		res.Nontrivial = append(res.Nontrivial, fmt.Sprintf("%d|%d|%d|%v", limit, nc, rep.Switches, plan.Tape.Preempt))
	}
	return res
}
