package worlds

import (
	"encoding/json"
	"fmt"
	"runtime/debug"
	"sort"
	"strings"
	"testing"
	"time"

	"github.com/Comcast/rulio/core"
	"github.com/Comcast/rulio/cron"

	"verif/sim/h"
	"verif/sim/hs"
)

// locworld is the general history executor over core.Location objects: it
// applies a plan's operations to the real engine and to the reference model
// in lock step, and after every operation compares what the statements make
// observable (a "battery" of gets, searches and event dispatches drawn from
// the plan itself, so that a replay file is self-contained).

type lwProfile struct {
	Prop        string
	Battery     bool // run the observation battery after every operation
	CheckStore  bool // storage dump agrees with the model after every operation
	CheckReload bool // a location rebuilt from storage agrees with the live one
	Dispatch    bool // include event dispatch in the battery
	Search      bool // include searches in the battery
	System      bool // drive a sys.System instead of bare locations (set by cfg too)
	Values      bool // judge ProcessEvent().Values against the rules' constant action values
	Capacity    bool // StateSize never exceeds MaxFacts after a successful public add
	Lifecycle   bool // RuleEnabled agrees with the model; battery also runs in disabled locations
}

type lw struct {
	t      *testing.T
	plan   *h.Plan
	prof   lwProfile
	res    *h.Result
	eng    *h.CoreEngine
	model  *h.Model
	trace  []string
	doTr   bool
	opIdx  int
	state  string
	genIds map[string][]string // generated ids per location
	allGen map[string]bool
	f0     int64 // injected storage failures fired before the current operation
	lastAddOK bool // the add operation just executed returned success
	// ghosts (per location): canonical bodies of generated-id adds that failed
	// or were interrupted half-way; an unknown id holding such a body is a
	// don't-care (the engine chose the id, the caller never learnt it)
	ghosts map[string]map[string]bool
}

func (w *lw) addGhost(loc string, it *h.Item) {
	if it == nil {
		return
	}
	if w.ghosts == nil {
		w.ghosts = map[string]map[string]bool{}
	}
	if w.ghosts[loc] == nil {
		w.ghosts[loc] = map[string]bool{}
	}
	w.ghosts[loc][h.CanonSet(it.Body)] = true
}

// isGhost: id is unknown to the model and holds the body of a failed generated-id add.
func (w *lw) isGhost(loc, id string, body map[string]interface{}) bool {
	if len(w.ghosts[loc]) == 0 {
		return false
	}
	if _, ok := w.model.Loc(loc).Items[id]; ok {
		return false
	}
	if body == nil {
		js, ok := w.eng.Store.Dump(loc)[id]
		if ok {
			body = h.ParseMap(js)
		} else if l, ok := w.eng.Locs[loc]; ok {
			if got, err := l.GetFact(h.NewCtx(h.Prot{RK: w.model.ReadKeyOf(w.model.Loc(loc))}), id); err == nil {
				body = map[string]interface{}(got)
			}
		}
	}
	if body == nil {
		return false
	}
	b := h.CloneMap(body)
	delete(b, "_id")
	return w.ghosts[loc][h.CanonSet(b)]
}

func (w *lw) tr(f string, a ...interface{}) {
	if w.doTr {
		w.trace = append(w.trace, fmt.Sprintf("[%s] op %d: ", time.Now().UTC().Format("15:04:05.000"), w.opIdx)+fmt.Sprintf(f, a...))
	}
}

type lwViolation struct{ v *h.Violation }

// lwStop ends a run without verdict (what follows could not be judged soundly).
type lwStop struct{ why string }

// soft reports an observation-only disagreement.  When it matches an open
// known finding the run continues (engine and model are still in step, the
// disagreement has no side effect) and soft returns true; otherwise it ends
// the run like fail.
func (w *lw) soft(class, sig, f string, a ...interface{}) bool {
	v := &h.Violation{Property: w.prof.Prop, Class: class, Sig: w.state + ":" + sig}
	if k := h.IsKnown(h.KnownList, v); k != nil {
		if w.res.Known == nil {
			w.res.Known = map[string]int64{}
		}
		w.res.Known[k.Class+" "+k.Sig]++
		return true
	}
	w.fail(class, sig, f, a...)
	return false
}

func (w *lw) fail(class, sig, f string, a ...interface{}) {
	panic(lwViolation{&h.Violation{Property: w.prof.Prop, Class: class, Sig: w.state + ":" + sig, Detail: fmt.Sprintf(f, a...), OpIdx: w.opIdx}})
}

// call runs an engine call, converting a panic into a violation.
func (w *lw) call(what string, f func()) {
	defer func() {
		if r := recover(); r != nil {
			if _, ok := r.(h.CrashSignal); ok {
				panic(r)
			}
			if _, ok := r.(lwViolation); ok {
				panic(r)
			}
			if _, ok := r.(lwStop); ok {
				panic(r)
			}
			st := string(debug.Stack())
			w.tr("PANIC in %s: %v", what, r)
			w.fail("panic", what+":"+panicSite(st), "%s panicked: %v\n%s", what, r, h.Trunc(st, 1500))
		}
	}()
	f()
}

// panicSite extracts the innermost rulio frame of a stack trace.
func panicSite(st string) string {
	lines := strings.Split(st, "\n")
	seenPanic := false
	for _, l := range lines {
		if strings.HasPrefix(l, "panic(") {
			seenPanic = true
			continue
		}
		if seenPanic && strings.Contains(l, "github.com/Comcast/rulio/") && !strings.HasPrefix(l, "\t") {
			s := l
			if i := strings.LastIndex(s, "("); i > 0 {
				s = s[:i]
			}
			return strings.TrimPrefix(s, "github.com/Comcast/rulio/")
		}
	}
	return "unknown"
}

func execLocWorld(t *testing.T, plan *h.Plan, trace bool, prof lwProfile) *h.Result {
	res := &h.Result{}
	w := &lw{t: t, plan: plan, prof: prof, res: res, doTr: trace, genIds: map[string][]string{}, allGen: map[string]bool{}}
	h.Arm(60*time.Second, fmt.Sprintf("%s run_seed=%d", plan.Property, plan.RunSeed))
	defer h.Disarm()
	var back *h.Backend
	out := h.Bubble(t, func() {
		h.SeedProcess(plan.RunSeed)
		ps := h.ResetParams()
		if plan.CfgB("id_inject") {
			ps.IdInjectionTime = core.InjectIdAtWrite
		}
		if n := plan.CfgI("term_limit", 0); n > 0 {
			ps.StringLengthTermLimit = int(n)
		}
		ctl := h.QuietControl()
		ctl.MaxFacts = int(plan.CfgI("max_facts", 1000))
		w.state = plan.CfgS("state", "indexed")
		back = h.NewBackend(plan.CfgS("storage", "mem"))
		w.eng = h.NewCoreEngine(w.state, back, ctl)
		// the state hooks a System installs on every location (cron registration
		// of scheduled rules): requests reach the states through them in service
		// (one run in four is a library user without a System: no hooks)
		if plan.RunSeed%4 != 0 {
			lwCron := hs.NewSimCron(true)
			w.eng.OnNewState = func(ctx *core.Context, name string, st core.State) { cron.AddHooks(ctx, lwCron, st) }
		}
		w.eng.Store.SetFaults(plan.Faults)
		w.model = h.NewModel(time.Now)
		w.model.IdInject = plan.CfgB("id_inject")
		w.model.MaxFacts = ctl.MaxFacts
		h.SharedCtx = nil
		if plan.CfgB("shared_ctx") {
			// one caller context for the whole history, its keys set per request
			h.SharedCtx = core.BenchContext("sim")
			defer func() { h.SharedCtx = nil }()
		}
		start := time.Now()
		func() {
			defer func() {
				if r := recover(); r != nil {
					if v, ok := r.(lwViolation); ok {
						res.Viol = v.v
						return
					}
					if st, ok := r.(lwStop); ok {
						res.Count("runs_stopped_early."+st.why, 1)
						return
					}
					panic(r)
				}
			}()
			for i, op := range plan.Ops {
				w.opIdx = i
				w.stepFaultAware(op)
			}
		}()
		res.SimNanos = int64(time.Since(start))
	})
	if back != nil {
		back.Close()
	}
	if res.Viol == nil {
		if out.Panic != nil {
			res.Viol = &h.Violation{Property: prof.Prop, Class: "harness-panic", Sig: fmt.Sprint(out.Panic), Detail: out.Stack, OpIdx: w.opIdx}
		} else if out.Deadlock {
			res.Viol = &h.Violation{Property: prof.Prop, Class: "deadlock", Sig: w.state + ":bubble-deadlock", Detail: out.Msg, OpIdx: w.opIdx}
		}
	}
	if w.eng != nil {
		for k, v := range w.eng.Store.Fired {
			res.Count("fault."+k, v)
		}
		res.Count("storage_calls", w.eng.Store.N)
	}
	res.Trace = w.trace
	return res
}

// stepFaultAware runs one operation; if the fault plan kills the process
// inside it (SimStorage unwinds the client with CrashSignal) every live
// object is dropped, the engine is rebuilt from the durable content and the
// interrupted operation is judged: each id it names is in its old or its
// new state, nothing else changed.
func (w *lw) stepFaultAware(op h.Op) {
	crashed := false
	func() {
		defer func() {
			if r := recover(); r != nil {
				if _, ok := r.(h.CrashSignal); ok {
					crashed = true
					return
				}
				panic(r)
			}
		}()
		w.step(op)
	}()
	if crashed {
		w.afterCrash(op)
	}
}

// applyModelOp applies a mutating operation to a model (no engine involved)
// and returns the item a generated-id add would create.
func applyModelOp(m *h.Model, op h.Op) *h.Item {
	switch op.K {
	case "addfact":
		_, it, gen, err := m.AddFact(op.Loc, op.Id, op.Map(), prot(op))
		if err == nil && gen {
			return it
		}
	case "addrule":
		_, it, gen, err := m.AddRule(op.Loc, op.Id, op.Map(), prot(op))
		if err == nil && gen {
			return it
		}
	case "remfact":
		if ex, _, err := m.RemFact(op.Loc, op.Id, prot(op)); err == nil && !ex && cascadeFromUnknownIsKnown() {
			m.CascadeFrom(op.Loc, op.Id)
		}
	case "remrule":
		if ex, _, err := m.RemFact(op.Loc, op.Id, prot(op)); err == nil {
			if !ex && cascadeFromUnknownIsKnown() {
				m.CascadeFrom(op.Loc, op.Id)
			}
			m.RemFact(op.Loc, h.PropId(op.Id, "disabled"), prot(op))
		}
	case "enable":
		l := m.Loc(op.Loc)
		if m.Enabled(l) && m.CanWrite(l, prot(op)) {
			if op.B {
				m.RemRaw(op.Loc, h.PropId(op.Id, "disabled"))
			} else {
				m.SetPropRaw(op.Loc, op.Id, "disabled", true)
			}
		}
	case "setparents":
		l := m.Loc(op.Loc)
		if m.Enabled(l) && m.CanWrite(l, prot(op)) {
			ps := make([]interface{}, len(op.L))
			for i, p := range op.L {
				ps[i] = p
			}
			m.SetPropRaw(op.Loc, "", "parents", ps)
		}
	case "setprop":
		m.SetPropRaw(op.Loc, op.Id, op.S, op.J)
	case "clear":
		l := m.Loc(op.Loc)
		if m.Enabled(l) && m.CanWrite(l, prot(op)) {
			l.Items = map[string]*h.Item{}
			m.Forget(op.Loc)
		}
	}
	return nil
}

// cascadeFromUnknownIsKnown: while the finding "removing an unknown id still
// deletes its dependents" is open, an interrupted or failed removal of an
// unknown id names those dependents too.
func cascadeFromUnknownIsKnown() bool {
	for _, k := range h.KnownList {
		if k.Status == "open" && k.Class == "cascade-from-unknown-id" {
			return true
		}
	}
	return false
}

// namedIds returns, per location, the ids whose model state an operation
// changes (the ids it names: its target and its cascade set).
func (w *lw) namedIds(op h.Op) (newM *h.Model, named map[string][]string, genItem *h.Item) {
	old := w.model
	old.PurgeAll()
	newM = old.Clone()
	genItem = applyModelOp(newM, op)
	named = map[string][]string{}
	for ln := range newM.Locs {
		seen := map[string]bool{}
		for id := range old.Loc(ln).Items {
			seen[id] = true
		}
		for id := range newM.Loc(ln).Items {
			seen[id] = true
		}
		for id := range seen {
			if old.ItemKey(ln, id) != newM.ItemKey(ln, id) {
				named[ln] = append(named[ln], id)
			}
		}
		sort.Strings(named[ln])
	}
	return
}

func (w *lw) afterCrash(op h.Op) {
	w.tr("CRASH inside %s; restarting from durable content", op.K)
	w.res.Count("crash_restarts", 1)
	newM, named, genItem := w.namedIds(op)
	// every expired-but-unpurged id may or may not have been purged
	for i := 0; i < 3; i++ {
		crashedAgain := false
		func() {
			defer func() {
				if r := recover(); r != nil {
					if _, ok := r.(h.CrashSignal); ok {
						crashedAgain = true
						return
					}
					panic(r)
				}
			}()
			if err := w.eng.RestartAll(true); err != nil {
				if err == h.ErrInjected || strings.Contains(err.Error(), "injected") {
					crashedAgain = true
					return
				}
				w.fail("reload-failed", "after-crash", "rebuilding from storage after a crash failed: %v", err)
			}
		}()
		if !crashedAgain {
			break
		}
	}
	m := w.model
	m.FaultPendingPurges()
	// An interrupted write may have reached storage with a deleteWith on an item
	// that has expired unobserved: the restart purges that item and, through the
	// new item, everything that hangs on the written id - or the write did not
	// get that far.  What hangs on such an id is open.
	for ln, ids := range named {
		for _, id := range ids {
			nit := newM.Loc(ln).Items[id]
			if nit == nil {
				continue
			}
			xs, _ := nit.Body["deleteWith"].([]interface{})
			for _, x := range xs {
				if sname, ok := x.(string); ok && (m.Pending[ln][sname] || m.IsUncertain(ln, sname)) {
					for d := range m.Dependents(m.Loc(ln), id) {
						m.MarkFault(ln, d)
					}
					break
				}
			}
		}
	}
	gone := map[string]bool{}   // ids (of op.Loc) found in their new, absent state
	stayed := map[string]bool{} // ids (of op.Loc) found in their old, present state
	for ln, ids := range named {
		loc := w.eng.Loc(ln)
		l := m.Loc(ln)
		p := h.Prot{RK: m.ReadKeyOf(l)}
		for _, id := range ids {
			if m.IsUncertain(ln, id) {
				// already open for another reason (say, it depends on an item whose
				// expiry the engine has not observed yet): whether the interrupted
				// write replaced it stays open after that other reason is settled
				m.MarkFault(ln, id)
				continue
			}
			var got core.Map
			var err error
			w.call("GetFact", func() { got, err = loc.GetFact(h.NewCtx(p), id) })
			g := ""
			if err == nil {
				g = h.CanonSet(stripId(got))
			}
			oldK, newK := m.ItemKey(ln, id), newM.ItemKey(ln, id)
			switch g {
			case newK:
				if nit, ok := newM.Loc(ln).Items[id]; ok {
					m.AdoptWritten(ln, nit)
				} else {
					delete(l.Items, id)
					if ln == op.Loc {
						gone[id] = true
					}
				}
			case oldK:
				// keeps its old state
				if ln == op.Loc && oldK != "" {
					stayed[id] = true
				}
			default:
				w.fail("crash-corrupts-item", op.K, "after a crash inside %s, %s/%s = %s which is neither its old state %s nor its new state %s", op.K, ln, id, g, oldK, newK)
			}
		}
	}
	if (op.K == "remfact" || op.K == "remrule") && stayed[op.Id] {
		// "an interrupted operation affects only the ids it names": a removal
		// that was cut short may have removed the named item and not yet its
		// dependents, never the other way round
		for id := range gone {
			if id != op.Id {
				w.fail("crash-removed-dependent-before-target", op.K, "after a crash inside %s(%s), %s is gone from %s although %s itself (the only id the operation names) is still there", op.K, op.Id, id, op.Loc, op.Id)
			}
		}
	}
	if genItem != nil {
		// an add without id may have reached storage under a fresh id
		ln := op.Loc
		l := m.Loc(ln)
		for id, js := range w.eng.Store.Dump(ln) {
			if _, ok := l.Items[id]; ok || m.Pending[ln][id] || m.IsUncertain(ln, id) {
				continue
			}
			body := h.ParseMap(js)
			delete(body, "_id")
			if h.CanonSet(body) == h.CanonSet(genItem.Body) {
				w.adopt(ln, genItem, id)
				genItem = nil
				break
			}
		}
	}
	w.after(op)
}

// faulted handles an operation during which an injected storage failure
// fired: the operation must report an error; the ids it names become
// don't-cares; the model keeps its old state.
func (w *lw) faulted(op h.Op, err error) bool {
	if w.eng.Store.ErrorsFired() == w.f0 {
		return false
	}
	w.res.Count("ops_hit_by_storage_error", 1)
	if err == nil && w.expiredAround() {
		// the call that failed may have been the purge of an expired item met
		// on the way (its error is not the operation's): those items become
		// don't-cares, the operation itself is judged as usual
		w.obsFaulted()
		return false
	}
	if err == nil {
		w.fail("acknowledged-despite-storage-failure", op.K, "%s returned success although a storage call it made failed: %s", op.K, op.String())
	}
	_, named, genItem := w.namedIds(op)
	for ln, ids := range named {
		for _, id := range ids {
			w.model.MarkFault(ln, id)
			// what hangs on a named id shares its fate from now on: whether (and
			// when) the id expires or goes is no longer known, and they go with it
			for d := range w.model.Dependents(w.model.Loc(ln), id) {
				w.model.MarkFault(ln, d)
			}
		}
	}
	w.addGhost(op.Loc, genItem)
	w.tr("%s hit an injected storage failure -> %s; named ids %v are don't-cares", op.K, isErr(err), named)
	for _, ids := range named {
		for _, id := range ids {
			if strings.HasPrefix(id, "!.") {
				// a location-level property (parents, keys, enabled) is now
				// unknown: nothing after this point can be judged soundly
				panic(lwStop{"location-property-uncertain-after-fault"})
			}
		}
	}
	return true
}

// expiredAround: some item has expired and may not have been purged yet.
func (w *lw) expiredAround() bool {
	for ln, l := range w.model.Locs {
		if len(w.model.Pending[ln]) > 0 {
			return true
		}
		for _, it := range l.Items {
			if !w.model.Live(it) {
				return true
			}
		}
	}
	return false
}

// obsFaulted handles an injected failure that fired during an observation
// (an expiry purge failed half-way): everything expired becomes a don't-care.
func (w *lw) obsFaulted() bool {
	if w.eng.Store.ErrorsFired() == w.f0 {
		return false
	}
	w.f0 = w.eng.Store.ErrorsFired()
	for ln, l := range w.model.Locs {
		for id := range w.model.Pending[ln] {
			w.model.MarkFault(ln, id)
		}
		for id, it := range l.Items {
			if !w.model.Live(it) {
				w.model.MarkFault(ln, id)
			}
		}
		for id := range w.model.UncBy[ln] {
			w.model.MarkFault(ln, id)
		}
	}
	return true
}

func prot(op h.Op) h.Prot { return h.Prot{RK: op.RK, WK: op.WK} }

func isErr(err error) string {
	if err == nil {
		return "ok"
	}
	return "error(" + h.Trunc(err.Error(), 80) + ")"
}

// agree checks error-versus-success agreement between engine and model.
func (w *lw) agree(op h.Op, engErr, modErr error, sigHint string) {
	if (engErr == nil) == (modErr == nil) {
		return
	}
	if engErr != nil {
		w.fail("refused-valid-operation", op.K+":"+sigHint, "%s: engine returned error %q where the model accepts: %s", op.K, engErr.Error(), op.String())
	}
	w.fail("accepted-invalid-operation", op.K+":"+sigHint, "%s: engine succeeded where the model refuses (%v): %s", op.K, modErr, op.String())
}

func (w *lw) ids(loc string) []string {
	set := map[string]bool{}
	if xs, ok := w.plan.Cfg["ids"].([]interface{}); ok {
		for _, x := range xs {
			if s, ok := x.(string); ok {
				set[s] = true
			}
		}
	}
	for id := range w.model.Loc(loc).Items {
		set[id] = true
	}
	for _, id := range w.genIds[loc] {
		set[id] = true
	}
	for _, op := range w.plan.Ops {
		if op.Id != "" {
			set[op.Id] = true
		}
	}
	out := make([]string, 0, len(set))
	for id := range set {
		out = append(out, id)
	}
	sort.Strings(out)
	return out
}

func (w *lw) locNames() []string {
	names := []string{}
	if xs, ok := w.plan.Cfg["locs"].([]interface{}); ok {
		for _, x := range xs {
			if s, ok := x.(string); ok {
				names = append(names, s)
			}
		}
	}
	if len(names) == 0 {
		names = []string{"L"}
	}
	return names
}

func (w *lw) capacityDontCare(loc string, overwrite bool) (mustRefuse, dontCare bool) {
	l := w.model.Loc(loc)
	live := w.model.CountLive(l)
	total := len(l.Items) + len(w.model.Pending[loc])
	max := w.model.MaxFacts
	if live >= max {
		if overwrite {
			return false, true
		}
		return true, false
	}
	if total >= max {
		return false, true
	}
	return false, false
}

func (w *lw) step(op h.Op) {
	m := w.model
	if op.K != "sleep" {
		m.PurgeAll()
	}
	// open the locations the operation touches first: a failure injected into
	// their load is reported by NewLocation and retried, it is not part of op
	if op.Loc != "" {
		w.eng.Loc(op.Loc)
	}
	for _, pn := range op.L {
		w.eng.Loc(pn)
	}
	if op.K == "addfact" {
		// a parent list written as the property fact it is names locations too
		if ps, ok := op.Map()["!parents"].([]interface{}); ok {
			for _, x := range ps {
				if pn, ok := x.(string); ok {
					w.eng.Loc(pn)
					m.Loc(pn)
				}
			}
		}
	}
	w.f0 = w.eng.Store.ErrorsFired()
	switch op.K {
	case "sleep":
		time.Sleep(time.Duration(op.N))
		w.tr("sleep %v", time.Duration(op.N))
		return
	case "addfact":
		loc := w.eng.Loc(op.Loc)
		body := op.Map()
		l := m.Loc(op.Loc)
		m.Purge(l)
		_, existed := l.Items[w.targetId(op.Id, body)]
		mustRefuse, dc := w.capacityDontCare(op.Loc, existed)
		var id string
		var err error
		w.call("AddFact", func() { id, err = loc.AddFact(h.NewCtx(prot(op)), op.Id, core.Map(op.Map())) })
		w.tr("addfact %s %s -> %q %s", op.Id, h.Canon(body), id, isErr(err))
		w.lastAddOK = err == nil
		if w.faulted(op, err) {
			w.after(op)
			return
		}
		if dc && err != nil {
			// refused for capacity while the count is ambiguous: no effect expected
			w.after(op)
			return
		}
		if mustRefuse {
			if err == nil {
				if m.CanWrite(l, prot(op)) && m.Enabled(l) {
					w.fail("capacity-exceeded", "addfact", "AddFact succeeded with %d live items at MaxFacts=%d", m.CountLive(l), m.MaxFacts)
				}
			}
			if err != nil {
				w.after(op)
				return
			}
		}
		if err != nil && illFormedRuleFact(body) && m.CanWrite(l, prot(op)) && m.Enabled(l) {
			// a rule-shaped fact that is no rule: a state may refuse it (the indexed
			// state cannot index it) or keep it as data - C13 asks for a result or an
			// error, nothing more.  Refused means that nothing has changed.
			w.after(op)
			return
		}
		mid, it, gen, merr := m.AddFact(op.Loc, op.Id, body, prot(op))
		w.agree(op, err, merr, shapeOfFact(body))
		if err == nil {
			if gen {
				w.adopt(op.Loc, it, id)
			} else if id != mid {
				w.fail("id-not-kept", "addfact", "AddFact returned id %q, expected %q", id, mid)
			}
		}
	case "remfact", "remrule":
		loc := w.eng.Loc(op.Loc)
		var err error
		w.call(op.K, func() {
			if op.K == "remfact" {
				_, err = loc.RemFact(h.NewCtx(prot(op)), op.Id)
			} else {
				_, err = loc.RemRule(h.NewCtx(prot(op)), op.Id)
			}
		})
		if w.faulted(op, err) {
			w.after(op)
			return
		}
		l := m.Loc(op.Loc)
		m.Purge(l)
		_, inModel := l.Items[op.Id]
		if !inModel && err == nil && m.CanWrite(l, prot(op)) && m.Enabled(l) && !m.IsUncertain(op.Loc, op.Id) && !m.Pending[op.Loc][op.Id] {
			// Removing an id that does not exist deletes nothing, so items that
			// name it in deleteWith must survive.
			for _, did := range w.ids(op.Loc) {
				it := l.Items[did]
				if it == nil || !namesId(it.Body["deleteWith"], op.Id) || m.IsUncertain(op.Loc, did) || !m.Live(it) {
					continue
				}
				var gerr error
				w.call("GetFact", func() { _, gerr = loc.GetFact(h.NewCtx(h.Prot{RK: m.ReadKeyOf(l)}), did) })
				if gerr != nil {
					if w.soft("cascade-from-unknown-id", op.K, "%s(%s/%s): the id does not exist, yet %s (deleteWith %s) was deleted", op.K, op.Loc, op.Id, did, h.Canon(it.Body["deleteWith"])) {
						m.CascadeFrom(op.Loc, op.Id)
						break
					}
				}
			}
		}
		if m.IsUncertain(op.Loc, op.Id) {
			// whether the id was there decides whether its dependents went
			for d := range m.Dependents(l, op.Id) {
				m.MarkFault(op.Loc, d)
			}
		}
		exists, removed, merr := m.RemFact(op.Loc, op.Id, prot(op))
		w.tr("%s %s -> %s (model exists=%v removed=%v)", op.K, op.Id, isErr(err), exists, removed)
		if merr != nil || exists {
			w.agree(op, err, merr, "existing")
		}
		if op.K == "remrule" && merr == nil {
			// the disabled flag disappears with the rule
			m.RemFact(op.Loc, h.PropId(op.Id, "disabled"), prot(op))
		}
	case "getfact":
		w.checkGet(op.Loc, op.Id, prot(op), op)
	case "search":
		w.checkSearch(op.Loc, op.Map(), op.B, prot(op), op)
	case "addrule":
		loc := w.eng.Loc(op.Loc)
		body := op.Map()
		l := m.Loc(op.Loc)
		m.Purge(l)
		_, existed := l.Items[op.Id]
		mustRefuse, dc := w.capacityDontCare(op.Loc, existed && op.Id != "")
		var id string
		var err error
		w.call("AddRule", func() { id, err = loc.AddRule(h.NewCtx(prot(op)), op.Id, core.Map(op.Map())) })
		w.tr("addrule %s %s -> %q %s", op.Id, h.Canon(body), id, isErr(err))
		w.lastAddOK = err == nil
		if w.faulted(op, err) {
			w.after(op)
			return
		}
		if dc && err != nil {
			w.after(op)
			return
		}
		if mustRefuse {
			if err == nil && m.CanWrite(l, prot(op)) && m.Enabled(l) {
				w.fail("capacity-exceeded", "addrule", "AddRule succeeded with %d live items at MaxFacts=%d", m.CountLive(l), m.MaxFacts)
			}
			if err != nil {
				w.after(op)
				return
			}
		}
		if err != nil && strings.Contains(err.Error(), "is not sortable") {
			// indexed state refuses a `when` with a heterogeneous array or an
			// array of maps; nothing was stored, the model follows the engine
			if _, _, _, merr := h.NewModel(time.Now).AddRule(op.Loc, op.Id, body, h.Prot{}); merr == nil {
				if w.soft("refused-valid-operation", "addrule:array-not-sortable", "AddRule refused %s: %v", h.Canon(body), err) {
					w.after(op)
					return
				}
			}
		}
		mid, it, gen, merr := m.AddRule(op.Loc, op.Id, body, prot(op))
		w.agree(op, err, merr, shapeOfRule(body))
		if err == nil {
			if gen {
				w.adopt(op.Loc, it, id)
			} else if id != mid {
				w.fail("id-not-kept", "addrule", "AddRule returned id %q, expected %q", id, mid)
			}
		}
	case "enable":
		loc := w.eng.Loc(op.Loc)
		var err error
		w.call("EnableRule", func() { err = loc.EnableRule(h.NewCtx(prot(op)), op.Id, op.B) })
		w.tr("enable %s %v -> %s", op.Id, op.B, isErr(err))
		if w.faulted(op, err) {
			w.after(op)
			return
		}
		l := m.Loc(op.Loc)
		var merr error
		switch {
		case !m.Enabled(l):
			merr = &h.ErrModel{Why: "location disabled"}
		case !m.CanWrite(l, prot(op)):
			merr = &h.ErrModel{Why: "write not allowed"}
		}
		if merr != nil {
			w.agree(op, err, merr, "protected")
		} else if err == nil {
			if op.B {
				m.RemRaw(op.Loc, h.PropId(op.Id, "disabled"))
			} else {
				m.SetPropRaw(op.Loc, op.Id, "disabled", true)
			}
		}
		// an error from EnableRule in an unprotected location (e.g. at
		// capacity) leaves the flag unchanged in the model
	case "setparents":
		loc := w.eng.Loc(op.Loc)
		for _, p := range op.L {
			w.eng.Loc(p)
			m.Loc(p)
		}
		var err error
		w.call("SetParents", func() { _, err = loc.SetParents(h.NewCtx(prot(op)), op.L) })
		w.tr("setparents %v -> %s", op.L, isErr(err))
		if w.faulted(op, err) {
			w.after(op)
			return
		}
		l := m.Loc(op.Loc)
		if !m.Enabled(l) {
			w.agree(op, err, &h.ErrModel{Why: "location disabled"}, "disabled")
		} else if !m.CanWrite(l, prot(op)) {
			// the parent set is protected like facts and rules
			w.agree(op, err, &h.ErrModel{Why: "write not allowed"}, "protected")
		} else if err == nil {
			ps := make([]interface{}, len(op.L))
			for i, p := range op.L {
				ps[i] = p
			}
			m.SetPropRaw(op.Loc, "", "parents", ps)
		}
	case "clear":
		loc := w.eng.Loc(op.Loc)
		var err error
		w.call("Clear", func() { err = loc.Clear(h.NewCtx(prot(op))) })
		w.tr("clear -> %s", isErr(err))
		if w.faulted(op, err) {
			w.after(op)
			return
		}
		l := m.Loc(op.Loc)
		var merr error
		switch {
		case !m.Enabled(l):
			merr = &h.ErrModel{Why: "location disabled"}
		case !m.CanWrite(l, prot(op)):
			merr = &h.ErrModel{Why: "write not allowed"}
		}
		w.agree(op, err, merr, "clear")
		if err == nil {
			l.Items = map[string]*h.Item{}
			m.Forget(op.Loc)
		}
	case "reload":
		var err error
		w.call("reload", func() { err = w.eng.RestartAll(op.B) })
		w.tr("reload crash=%v -> %s", op.B, isErr(err))
		for try := 0; try < 6 && err != nil && w.eng.Store.ErrorsFired() != w.f0; try++ {
			// the load itself hit an injected failure and reported it: open again
			// (a plan may place several failures on consecutive calls)
			w.f0 = w.eng.Store.ErrorsFired()
			w.call("reload", func() { err = w.eng.RestartAll(op.B) })
			w.tr("reload again -> %s", isErr(err))
		}
		if err != nil {
			w.fail("reload-failed", "reload", "rebuilding locations from storage failed: %v", err)
		}
		w.res.Count("reloads", 1)
		// the read-only switch is a process-level setting of the embedding
		// application, not stored state: the application applies it again
		for ln, l := range m.Locs {
			if l.ReadOnly {
				w.eng.Loc(ln).SetReadOnly(h.NewCtx(h.Prot{}), true)
			}
		}
	case "setprop":
		// location-level property (readKey, writeKey, enabled, …)
		loc := w.eng.Loc(op.Loc)
		var err error
		val := op.J
		w.call("SetProp", func() {
			// (Location.SetProp is the one entry point that does not note the
			// location in the caller's context; the add hook looks there)
			ctx := h.NewCtx(prot(op))
			ctx.SetLoc(loc)
			err = loc.SetProp(ctx, op.Id, op.S, val)
		})
		w.tr("setprop %s.%s=%v -> %s", op.Id, op.S, val, isErr(err))
		if w.faulted(op, err) {
			w.after(op)
			return
		}
		if err == nil {
			m.SetPropRaw(op.Loc, op.Id, op.S, val)
		}
	case "readonly":
		loc := w.eng.Loc(op.Loc)
		loc.SetReadOnly(h.NewCtx(h.Prot{}), op.B)
		m.Loc(op.Loc).ReadOnly = op.B
		w.tr("readonly %v", op.B)
	case "getrule":
		loc := w.eng.Loc(op.Loc)
		var got core.Map
		var err error
		w.call("GetRule", func() { got, err = loc.GetRule(h.NewCtx(prot(op)), op.Id) })
		w.tr("getrule %s -> %s", op.Id, isErr(err))
		if !m.IsUncertain(op.Loc, op.Id) {
			it, merr := m.Get(op.Loc, op.Id, prot(op))
			if merr == nil && h.RuleOf(it) == nil {
				merr = &h.ErrModel{Why: "not a rule"}
			}
			w.agree(op, err, merr, "getrule")
			if err == nil && h.CanonSet(stripId(got)) != h.CanonSet(h.RuleOf(it)) {
				w.fail("get-content", "getrule", "GetRule(%s/%s) = %s, model has %s", op.Loc, op.Id, h.Canon(map[string]interface{}(got)), h.Canon(h.RuleOf(it)))
			}
		}
		m.Confirm(op.Loc, op.Id)
	case "listrules":
		loc := w.eng.Loc(op.Loc)
		var got []string
		var err error
		w.call("ListRules", func() { got, err = loc.ListRules(h.NewCtx(prot(op)), op.B) })
		w.tr("listrules -> %v %s", got, isErr(err))
		want, merr := m.Search(op.Loc, map[string]interface{}{"rule": "?rule"}, op.B, prot(op))
		if !h.DontCare(merr) {
			w.agree(op, err, merr, "listrules")
		}
		if err == nil && merr == nil {
			gm := map[string][]string{}
			for _, id := range got {
				gm[id] = []string{"x"}
			}
			wm := map[string][]string{}
			for id := range want {
				wm[id] = []string{"x"}
			}
			skip := func(id string) bool { return w.uncertainAnywhere(op.Loc, id, op.B) }
			if d := h.DiffSets(gm, wm, skip); d != "" {
				w.fail("listrules-mismatch", "listrules:"+diffKind(d), "ListRules(%s, inherited=%v): %s", op.Loc, op.B, d)
			}
		}
	case "searchrules":
		loc := w.eng.Loc(op.Loc)
		var got map[string]*core.Rule
		var err error
		w.call("SearchRules", func() { got, err = loc.SearchRules(h.NewCtx(prot(op)), core.Map(op.Map()), op.B) })
		w.tr("searchrules -> %v %s", h.ObsRuleIds(got), isErr(err))
		want, merr := m.SearchRules(op.Loc, op.Map(), op.B, prot(op))
		if !h.DontCare(merr) && !(err != nil && strings.Contains(err.Error(), "is not sortable")) {
			w.agree(op, err, merr, "searchrules")
			if err == nil {
				gm := map[string][]string{}
				for id := range got {
					gm[id] = []string{"x"}
				}
				wm := map[string][]string{}
				for id := range want {
					wm[id] = []string{"x"}
				}
				skip := func(id string) bool { return w.uncertainAnywhere(op.Loc, id, op.B) }
				if d := h.DiffSets(gm, wm, skip); d != "" {
					w.fail("searchrules-mismatch", "searchrules:"+diffKind(d), "SearchRules(%s, %s, inherited=%v): %s", op.Loc, h.Canon(op.J), op.B, d)
				}
			}
		}
	case "statesize":
		loc := w.eng.Loc(op.Loc)
		var n int
		var err error
		w.call("StateSize", func() { n, err = loc.StateSize(h.NewCtx(prot(op))) })
		w.tr("statesize -> %d %s", n, isErr(err))
		l := m.Loc(op.Loc)
		var merr error
		if !m.CanRead(l, prot(op)) {
			merr = &h.ErrModel{Why: "read not allowed"}
		}
		w.agree(op, err, merr, "statesize")
	case "querytree":
		w.checkQueryTree(op)
	case "condevent":
		w.checkConditionEvent(op)
	case "query":
		// a single-pattern query: reveals facts like an inherited search
		loc := w.eng.Loc(op.Loc)
		var qr *core.QueryResult
		var err error
		q := map[string]interface{}{"pattern": op.J}
		w.call("Query", func() { qr, err = loc.Query(h.NewCtx(prot(op)), h.Canon(q)) })
		w.tr("query %s -> %s", h.Canon(q), isErr(err))
		want, merr := m.Search(op.Loc, op.Map(), true, prot(op))
		if h.DontCare(merr) {
			break
		}
		if err != nil && merr == nil && strings.Contains(err.Error(), "No terms given") {
			break // known finding of C02 (indexed state refuses term-less patterns)
		}
		w.agree(op, err, merr, "query")
		if err == nil {
			var got, exp []string
			for _, bs := range qr.Bss {
				got = append(got, h.CanonSet(map[string]interface{}(bs)))
			}
			unc := false
			for id, bss := range want {
				if w.uncertainAnywhere(op.Loc, id, true) {
					unc = true
				}
				exp = append(exp, bss...)
			}
			if !unc && len(m.UncBy[op.Loc]) == 0 && h.MultisetKey(got) != h.MultisetKey(exp) {
				w.fail("query-mismatch", "query:pattern", "Query(%s, %s) = %v, expected %v", op.Loc, h.Canon(q), got, exp)
			}
		}
	case "event":
		want := w.checkDispatch(op.Loc, op.Map(), prot(op), op)
		w.applyActionEffects(op, want)
		if id, ok := w.oneShotTrigger(op.Loc, op.Map()); ok && len(want[id]) > 0 {
			// a one-shot scheduled rule is retired after its run: a removal made
			// with the caller's credentials (refused ones made the event fail)
			m.RemFact(op.Loc, id, prot(op))
			m.RemFact(op.Loc, h.PropId(id, "disabled"), prot(op))
		}
	default:
		panic("harness: unknown op " + op.K)
	}
	w.after(op)
}

// oneShotTrigger: the event names ("trigger!") a live rule of loc whose
// schedule is a one-shot one ("+delay" or "!instant").
func (w *lw) oneShotTrigger(loc string, event map[string]interface{}) (string, bool) {
	id, ok := event["trigger!"].(string)
	if !ok {
		return "", false
	}
	it, ok := w.model.Loc(loc).Items[id]
	if !ok || !w.model.Live(it) {
		return "", false
	}
	rule := h.RuleOf(it)
	if rule == nil {
		return "", false
	}
	s, _ := rule["schedule"].(string)
	return id, strings.HasPrefix(s, "+") || strings.HasPrefix(s, "!")
}

func namesId(dw interface{}, id string) bool {
	xs, ok := dw.([]interface{})
	if !ok {
		return false
	}
	for _, x := range xs {
		if s, ok := x.(string); ok && s == id {
			return true
		}
	}
	return false
}

func (w *lw) targetId(id string, body map[string]interface{}) string {
	if is, target, prop, err := h.IsPropBody(body); err == nil && is {
		return h.PropId(target, prop)
	}
	return id
}

func (w *lw) adopt(loc string, it *h.Item, id string) {
	if id == "" {
		w.fail("generated-id-empty", "add", "engine generated an empty id")
	}
	if w.allGen[loc+"/"+id] {
		w.fail("generated-id-not-unique", "add", "engine generated id %q twice", id)
	}
	if _, clash := w.model.Loc(loc).Items[id]; clash {
		w.fail("generated-id-not-fresh", "add", "engine generated id %q which is in use", id)
	}
	w.allGen[loc+"/"+id] = true
	w.genIds[loc] = append(w.genIds[loc], id)
	w.model.Adopt(loc, it, id)
}

// shapeOfFact classifies a fact body for violation signatures.
func shapeOfFact(b map[string]interface{}) string {
	var tags []string
	for _, k := range []string{"ttl", "expires", "deleteWith", "rule", "id", "_id"} {
		if _, ok := b[k]; ok {
			tags = append(tags, k)
		}
	}
	for k := range b {
		if len(k) > 0 && k[0] == '!' {
			tags = append(tags, "prop")
			break
		}
	}
	if len(tags) == 0 {
		return "plain"
	}
	sort.Strings(tags)
	return strings.Join(tags, "+")
}

func shapeOfRule(r map[string]interface{}) string {
	var tags []string
	for _, k := range []string{"when", "schedule", "condition", "action", "actions", "ttl", "expires", "deleteWith", "policies"} {
		if _, ok := r[k]; ok {
			tags = append(tags, k)
		}
	}
	return strings.Join(tags, "+")
}

// patternShape classifies a pattern for signatures.  A pattern without a
// single constant string short enough to be a term (as key or value) is the
// documented blind spot of the term index and gets its own class.
func (w *lw) patternShape(p interface{}) string {
	switch x := p.(type) {
	case map[string]interface{}:
		limit := int(w.plan.CfgI("term_limit", 1024))
		terms := 0
		var cnt func(v interface{})
		cnt = func(v interface{}) {
			switch y := v.(type) {
			case string:
				if !strings.HasPrefix(y, "?") && len(y) < limit {
					terms++
				}
			case map[string]interface{}:
				for k, vv := range y {
					cnt(k)
					if k == "rule" || strings.HasSuffix(k, "!") {
						continue
					}
					cnt(vv)
				}
			case []interface{}:
				for _, e := range y {
					cnt(e)
				}
			}
		}
		cnt(x)
		if terms == 0 {
			return "no-indexable-terms"
		}
		hasConstKey, hasVarKey, hasStr := false, false, false
		var walk func(v interface{})
		walk = func(v interface{}) {
			switch y := v.(type) {
			case string:
				if !strings.HasPrefix(y, "?") {
					hasStr = true
				}
			case map[string]interface{}:
				for k, vv := range y {
					if strings.HasPrefix(k, "?") {
						hasVarKey = true
					} else {
						hasConstKey = true
					}
					walk(vv)
				}
			case []interface{}:
				for _, e := range y {
					walk(e)
				}
			}
		}
		walk(x)
		s := ""
		if hasVarKey {
			s += "varkey"
		}
		if hasConstKey {
			s += "+constkey"
		}
		if hasStr {
			s += "+str"
		}
		return s
	}
	return "nonmap"
}

// ---- observations -----------------------------------------------------------

func (w *lw) checkGet(locName, id string, p h.Prot, op h.Op) {
	loc := w.eng.Loc(locName)
	var got core.Map
	var err error
	w.model.PurgeAll()
	w.call("GetFact", func() { got, err = loc.GetFact(h.NewCtx(p), id) })
	if w.obsFaulted() {
		return
	}
	unc := w.model.IsUncertain(locName, id)
	w.tr("  battery get %s/%s -> %s (uncertain=%v)", locName, id, isErr(err), unc)
	it, merr := w.model.Get(locName, id, p)
	if ml := w.model.Loc(locName); w.model.Enabled(ml) && w.model.CanRead(ml, p) {
		// the engine looked the id up (and purged it if it had expired)
		w.model.Confirm(locName, id)
	}
	if unc {
		return
	}
	if (err == nil) != (merr == nil) {
		if err != nil {
			w.fail("get-missing", "get:"+w.itemKind(it), "GetFact(%s/%s) returned error %q but the model holds %s", locName, id, err.Error(), h.Canon(it.Body))
		}
		w.fail("get-stale", "get:"+w.goneKind(locName, id), "GetFact(%s/%s) returned %s but the model says it must fail (%v)", locName, id, h.Canon(map[string]interface{}(got)), merr)
	}
	if err == nil {
		g := h.Canon(sortSets(stripId(got)))
		if g != h.Canon(sortSets(it.Body)) {
			w.fail("get-content", "get:"+w.itemKind(it), "GetFact(%s/%s) = %s, model has %s", locName, id, g, h.Canon(it.Body))
		}
		// a plain fact comes back as written, the order of its arrays included
		// (a rule's `when` may come back with its arrays sorted: the pattern
		// index sorts them in place, and in a pattern an array is a set)
		if h.RuleOf(it) == nil && it.Expires == 0 {
			if g, want := h.Canon(stripId(got)), h.Canon(it.Body); g != want {
				w.fail("get-content", "get:"+w.itemKind(it)+":order", "GetFact(%s/%s) = %s, last written %s", locName, id, g, want)
			}
		}
	}
}

// illFormedRuleFact: the body has a "rule" that is not a map, or whose `when`
// (or the pattern in it) is not a map.
func illFormedRuleFact(body map[string]interface{}) bool {
	r, has := body["rule"]
	if !has {
		return false
	}
	rm, ok := r.(map[string]interface{})
	if !ok {
		return true
	}
	if w, has := rm["when"]; has {
		wm, ok := w.(map[string]interface{})
		if !ok {
			return true
		}
		if p, has := wm["pattern"]; has {
			if _, ok := p.(map[string]interface{}); !ok {
				return true
			}
		}
	}
	return false
}

func sortSets(v interface{}) interface{} { return h.SortSets(h.Parse(h.Canon(v))) }

// stripId removes the injected `_id` field: under id injection the engine
// may add it to what it returns; the statements do not speak about it.
func stripId(m0 core.Map) map[string]interface{} {
	m := map[string]interface{}(m0)
	if _, ok := m["_id"]; !ok {
		return m
	}
	out := map[string]interface{}{}
	for k, v := range m {
		if k != "_id" {
			out[k] = v
		}
	}
	return out
}

func (w *lw) itemKind(it *h.Item) string {
	if it == nil {
		return "none"
	}
	k := "fact"
	if h.RuleOf(it) != nil {
		k = "rule"
	} else if strings.HasPrefix(it.Id, "!") {
		k = "prop"
	}
	if it.Expires != 0 {
		k += "+expiring"
	}
	return k
}

// goneKind says why the model thinks an id is absent.
func (w *lw) goneKind(loc, id string) string {
	l := w.model.Loc(loc)
	if it, ok := l.Items[id]; ok && !w.model.Live(it) {
		return "expired"
	}
	if w.model.Pending[loc][id] {
		return "expired"
	}
	return "removed"
}

func (w *lw) checkSearch(locName string, pattern map[string]interface{}, inherited bool, p h.Prot, op h.Op) {
	loc := w.eng.Loc(locName)
	var srs *core.SearchResults
	var err error
	w.model.PurgeAll()
	w.call("SearchFacts", func() { srs, err = loc.SearchFacts(h.NewCtx(p), core.Map(h.CloneMap(pattern)), inherited) })
	if w.obsFaulted() {
		return
	}
	want, merr := w.model.Search(locName, pattern, inherited, p)
	if h.DontCare(merr) {
		// the pattern is outside the documented fragment (the matcher itself
		// refuses it): whether the engine notices depends on which facts it
		// tries; the statements leave this open
		return
	}
	if (err == nil) != (merr == nil) {
		if err != nil {
			if w.soft("search-refused", "search:"+w.patternShape(pattern), "SearchFacts(%s, %s) returned error %q; the model answers %v", locName, h.Canon(pattern), err.Error(), want) {
				return
			}
		}
		w.fail("search-accepted", "search:"+w.patternShape(pattern), "SearchFacts(%s, %s) succeeded; the model refuses (%v)", locName, h.Canon(pattern), merr)
	}
	if err != nil {
		return
	}
	got := h.ObsSearch(srs)
	skip := func(id string) bool { return w.uncertainAnywhere(locName, id, inherited) || w.isGhost(locName, id, nil) }
	if d := h.DiffSets(got, want, skip); d != "" {
		w.fail("search-mismatch", "search:"+diffKind(d), "SearchFacts(%s, %s, inherited=%v): %s", locName, h.Canon(pattern), inherited, d)
	}
	// data handed back by the storage back end stays intact: the JSON text of
	// every found fact still denotes the stored fact
	if !inherited {
		for _, sr := range srs.Found {
			it := w.model.Loc(locName).Items[sr.Id]
			if it == nil || skip(sr.Id) {
				continue
			}
			var body map[string]interface{}
			func() {
				defer func() {
					if recover() != nil {
						body = nil
					}
				}()
				body = h.ParseMap(sr.Js)
			}()
			if body == nil || h.CanonSet(stripId(body)) != h.CanonSet(it.Body) {
				w.fail("search-js-corrupt", "search:js", "SearchFacts(%s) returned Js %q for %s; the stored fact is %s", h.Canon(pattern), h.Trunc(sr.Js, 200), sr.Id, h.Canon(it.Body))
			}
		}
	}
	if len(want) > 0 {
		w.res.Nontrivial = append(w.res.Nontrivial, "search|"+h.Canon(pattern)+"|"+w.model.StateKey())
	}
}

func diffKind(d string) string {
	switch {
	case strings.Contains(d, "missing "):
		return "missing"
	case strings.Contains(d, "extra "):
		return "extra"
	default:
		return "bindings"
	}
}

func (w *lw) uncertainAnywhere(loc, id string, inherited bool) bool {
	if w.model.IsUncertain(loc, id) {
		return true
	}
	if inherited {
		names, _ := w.model.Ancestors(loc)
		for _, n := range names {
			if w.model.IsUncertain(n, id) {
				return true
			}
		}
	}
	return false
}

func jsonUnmarshal(js string, v interface{}) error { return json.Unmarshal([]byte(js), v) }

func canonBindings(bss []map[string]interface{}, strip bool) []string {
	var out []string
	for _, bs := range bss {
		if strip {
			bs = h.StripEnv(bs)
		}
		out = append(out, h.CanonSet(bs))
	}
	sort.Strings(out)
	return out
}

func (w *lw) anyUncertain(loc string) bool {
	names, _ := w.model.Ancestors(loc)
	for _, n := range names {
		if len(w.model.UncBy[n]) > 0 {
			return true
		}
	}
	return false
}

// checkQueryTree: Location.Query on a generated tree yields the multiset of
// bindings of the compositional semantics.
func (w *lw) checkQueryTree(op h.Op) {
	loc := w.eng.Loc(op.Loc)
	q := op.Map()
	js := h.Canon(h.StripTerms(q))
	var qr *core.QueryResult
	var err error
	w.model.PurgeAll()
	w.call("Query", func() { qr, err = loc.Query(h.NewCtx(prot(op)), js) })
	want, merr := w.model.EvalQuery(op.Loc, q, []map[string]interface{}{{}}, prot(op))
	w.tr("querytree %s -> %s", js, isErr(err))
	if h.DontCare(merr) || w.anyUncertain(op.Loc) {
		return
	}
	if err != nil && strings.Contains(err.Error(), "No terms given") {
		w.soft("search-refused", "search:no-indexable-terms", "Query %s: %v", js, err)
		return
	}
	if (err == nil) != (merr == nil) {
		if err != nil {
			w.fail("query-refused", "query:"+queryShape(q), "Query(%s, %s) returned error %q; the semantics give %v", op.Loc, js, err.Error(), canonBindings(want, false))
		}
		w.fail("query-accepted", "query:"+queryShape(q), "Query(%s, %s) succeeded; the semantics make it fail (%v)", op.Loc, js, merr)
	}
	if err != nil {
		return
	}
	var got []map[string]interface{}
	for _, bs := range qr.Bss {
		got = append(got, map[string]interface{}(bs))
	}
	g, e := canonBindings(got, false), canonBindings(want, false)
	if h.MultisetKey(g) != h.MultisetKey(e) {
		w.fail("query-mismatch", "query:"+queryShape(q), "Query(%s, %s) = %v, the semantics give %v", op.Loc, js, g, e)
	}
	if len(e) > 0 {
		w.res.Nontrivial = append(w.res.Nontrivial, "query|"+js+"|"+w.model.StateKey())
	}
}

// queryShape names the outermost connective and whether code/not/shortCircuit occur.
func queryShape(q map[string]interface{}) string {
	tags := map[string]bool{}
	var walk func(x interface{})
	walk = func(x interface{}) {
		switch y := x.(type) {
		case map[string]interface{}:
			for k, v := range y {
				switch k {
				case "and", "or", "not", "code", "pattern":
					tags[k] = true
				case "shortCircuit":
					if b, _ := v.(bool); b {
						tags["sc"] = true
					}
				}
				if k != "pattern" && k != "term" {
					walk(v)
				}
			}
		case []interface{}:
			for _, e := range y {
				walk(e)
			}
		}
	}
	walk(q)
	var ts []string
	for t := range tags {
		ts = append(ts, t)
	}
	sort.Strings(ts)
	if len(ts) == 0 {
		return "empty"
	}
	return strings.Join(ts, "+")
}

// checkConditionEvent: a rule whose condition is the query fires its action
// once per binding the condition yields for the event's `when` bindings.
func (w *lw) checkConditionEvent(op h.Op) {
	loc := w.eng.Loc(op.Loc)
	q := op.Map()
	rule := map[string]interface{}{
		"when":      map[string]interface{}{"pattern": map[string]interface{}{"go": "?g"}},
		"condition": h.StripTerms(q),
		"action":    map[string]interface{}{"code": "'hit'"},
	}
	l := w.model.Loc(op.Loc)
	p := h.Prot{RK: w.model.ReadKeyOf(l), WK: w.model.WriteKeyOf(l)}
	var err error
	w.call("AddRule", func() { _, err = loc.AddRule(h.NewCtx(p), "condrule", core.Map(h.CloneMap(rule))) })
	if err != nil {
		// the condition does not parse/compile: then Query must refuse it too (checked by querytree)
		w.tr("condevent: AddRule refused: %v", err)
		return
	}
	ev := map[string]interface{}{"go": op.S}
	var fr *core.FindRules
	var cond *core.Condition
	w.call("ProcessEvent", func() { fr, cond = loc.ProcessEvent(h.NewCtx(p), core.Map(h.CloneMap(ev))) })
	in := []map[string]interface{}{{"?g": op.S, "?event": ev, "?location": op.Loc, "?ruleId": "condrule"}}
	want, merr := w.model.EvalQuery(op.Loc, q, in, p)
	var rerr error
	w.call("RemRule", func() { _, rerr = loc.RemRule(h.NewCtx(p), "condrule") })
	_ = rerr
	w.tr("condevent %s -> cond=%v", h.Canon(h.StripTerms(q)), cond)
	if h.DontCare(merr) || w.anyUncertain(op.Loc) {
		return
	}
	if cond != nil {
		return // a failing condition ends the walk; judged by querytree
	}
	hits := 0
	var node *core.EvalRule
	for _, c := range fr.Children {
		if c.Rule != nil && c.Rule.Id == "condrule" {
			node = c
		}
	}
	if node == nil {
		w.fail("condition-rule-not-dispatched", "cond", "rule with condition %s was not dispatched for %s", h.Canon(h.StripTerms(q)), h.Canon(ev))
	}
	failedCond := false
	for _, erc := range node.Children {
		if erc.Disposition != nil && erc.Disposition.Msg != "complete" {
			failedCond = true
		}
		hits += len(erc.Children)
	}
	if failedCond != (merr != nil) {
		if strings.Contains(fmt.Sprint(node.Children[0].Disposition), "No terms given") {
			return
		}
		w.fail("condition-error-mismatch", "cond:"+queryShape(q), "condition %s: engine failed=%v, semantics refuse=%v", h.Canon(h.StripTerms(q)), failedCond, merr)
	}
	if merr == nil && hits != len(want) {
		w.fail("condition-bindings-mismatch", "cond:"+queryShape(q), "condition %s on %s produced %d action executions, the semantics give %d bindings %v", h.Canon(h.StripTerms(q)), h.Canon(ev), hits, len(want), canonBindings(want, true))
	}
}

// actOps extracts the operation list an action performs from its code: the
// generator writes actions as Env.* calls preceded by /*ops:<json>*/.
func actOps(code string) []h.Op {
	i := strings.Index(code, "/*ops:")
	j := strings.Index(code, "*/")
	if i < 0 || j < i {
		return nil
	}
	var ops []h.Op
	if err := jsonUnmarshal(code[i+6:j], &ops); err != nil {
		return nil
	}
	return ops
}

// ActionCode renders an operation list as an in-process JavaScript action.
func ActionCode(ops []h.Op, value string) string {
	var b strings.Builder
	b.WriteString("/*ops:" + h.Canon(ops) + "*/ ")
	for _, o := range ops {
		switch o.K {
		case "addfact":
			fmt.Fprintf(&b, "Env.AddFact(%s, %s); ", h.Canon(o.Id), h.Canon(o.J))
		case "remfact":
			fmt.Fprintf(&b, "Env.RemFact(%s); ", h.Canon(o.Id))
		case "addrule":
			fmt.Fprintf(&b, "Env.AddRule(%s, %s); ", h.Canon(o.Id), h.Canon(o.J))
		case "remrule":
			fmt.Fprintf(&b, "Env.RemRule(%s); ", h.Canon(o.Id))
		case "search":
			fmt.Fprintf(&b, "Env.Search(%s); ", h.Canon(o.J))
		}
	}
	fmt.Fprintf(&b, "'%s'", value)
	return b.String()
}

// applyActionEffects applies to the model what the actions of the dispatched
// rules do (the generator keeps the ids touched by different rules disjoint,
// so the order in which rules run does not matter).
func (w *lw) applyActionEffects(op h.Op, want map[string][]string) {
	if want == nil {
		return
	}
	ids := make([]string, 0, len(want))
	for id := range want {
		ids = append(ids, id)
	}
	sort.Strings(ids)
	names, _ := w.model.Ancestors(op.Loc)
	for _, id := range ids {
		var rule map[string]interface{}
		for _, n := range names {
			if it, ok := w.model.Loc(n).Items[id]; ok && h.RuleOf(it) != nil {
				rule = h.RuleOf(it)
			}
		}
		if rule == nil {
			continue
		}
		var acts []interface{}
		if a, ok := rule["action"]; ok {
			acts = append(acts, a)
		}
		if as, ok := rule["actions"].([]interface{}); ok {
			acts = append(acts, as...)
		}
		for range want[id] {
			for _, a := range acts {
				am, _ := a.(map[string]interface{})
				code, _ := am["code"].(string)
				for _, sub := range actOps(code) {
					sub.Loc = op.Loc
					sub.RK, sub.WK = op.RK, op.WK
					if !w.applyActOp(sub) {
						break // the script threw: the rest of this action does not run
					}
				}
			}
		}
	}
}

// applyActOp applies one action-issued operation to the model; false = refused.
func (w *lw) applyActOp(sub h.Op) bool {
	m := w.model
	switch sub.K {
	case "addfact":
		l := m.Loc(sub.Loc)
		if m.CountLive(l) >= m.MaxFacts {
			return false
		}
		_, _, _, err := m.AddFact(sub.Loc, sub.Id, sub.Map(), prot(sub))
		return err == nil
	case "addrule":
		l := m.Loc(sub.Loc)
		if m.CountLive(l) >= m.MaxFacts {
			return false
		}
		_, _, _, err := m.AddRule(sub.Loc, sub.Id, sub.Map(), prot(sub))
		return err == nil
	case "remfact":
		_, _, err := m.RemFact(sub.Loc, sub.Id, prot(sub))
		return err == nil
	case "remrule":
		_, _, err := m.RemFact(sub.Loc, sub.Id, prot(sub))
		if err == nil {
			m.RemRaw(sub.Loc, h.PropId(sub.Id, "disabled"))
		}
		return err == nil
	case "search":
		_, err := m.Search(sub.Loc, sub.Map(), true, prot(sub))
		return err == nil
	}
	return true
}

func (w *lw) checkDispatch(locName string, event map[string]interface{}, p h.Prot, op h.Op) (dispatched map[string][]string) {
	loc := w.eng.Loc(locName)
	var fr *core.FindRules
	var cond *core.Condition
	w.model.PurgeAll()
	w.call("ProcessEvent", func() { fr, cond = loc.ProcessEvent(h.NewCtx(p), core.Map(h.CloneMap(event))) })
	if w.obsFaulted() {
		return
	}
	want, merr := w.model.Dispatch(locName, event, p)
	if h.DontCare(merr) {
		// which rules ran is open, so is what their actions wrote
		w.actionTargetsUncertain(locName)
		return
	}
	if id, ok := w.oneShotTrigger(locName, event); ok && merr == nil && len(want[id]) > 0 {
		if l := w.model.Loc(locName); !w.model.CanWrite(l, p) {
			// the run of a one-shot rule ends with its removal, which needs the write key
			merr = &h.ErrModel{Why: "a one-shot rule cannot be retired: write not allowed"}
			want = nil
		}
	}
	failed := cond != nil
	if failed != (merr != nil) {
		if failed {
			if w.soft("dispatch-failed", "event:"+condKind(cond), "ProcessEvent(%s, %s) failed with %q; the model dispatches %v", locName, h.Canon(event), cond.Msg, want) {
				return
			}
		}
		w.fail("dispatch-accepted", "event", "ProcessEvent(%s, %s) succeeded; the model refuses (%v)", locName, h.Canon(event), merr)
	}
	if failed {
		return nil
	}
	dispatched = want
	got := h.ObsDispatch(fr)
	ancNames, _ := w.model.Ancestors(locName)
	skip := func(id string) bool {
		if w.uncertainAnywhere(locName, id, true) || w.model.IsUncertain(locName, h.PropId(id, "disabled")) {
			return true
		}
		for _, n := range ancNames {
			if w.isGhost(n, id, nil) {
				return true // a rule whose add (without an id) failed half-way
			}
		}
		return false
	}
	if d := h.DiffSets(got, want, skip); d != "" {
		w.fail("dispatch-mismatch", "event:"+diffKind(d)+":"+w.whenShapes(locName, d), "ProcessEvent(%s, %s): %s", locName, h.Canon(event), d)
	}
	// An id the model cannot speak for (say, after an operation that a storage
	// failure cut short) is still one thing or the other to the engine itself:
	// what GetFact hands out as a live, enabled event rule of this location is
	// dispatched when it matches, and what GetFact does not know is not.
	if _, isTrigger := event["trigger!"]; !isTrigger {
		for _, id := range w.ids(locName) {
			if !skip(id) || w.model.IsUncertain(locName, h.PropId(id, "disabled")) {
				continue
			}
			if it := w.model.Loc(locName).Items[h.PropId(id, "disabled")]; it != nil {
				continue // (a flag the model knows of: the rule may be disabled)
			}
			var body core.Map
			var gerr error
			w.call("GetFact", func() { body, gerr = loc.GetFact(h.NewCtx(p), id) })
			if w.obsFaulted() {
				break
			}
			_, dispatched := got[id]
			if gerr != nil {
				continue // (it may be an ancestor's)
			}
			rule, _ := body["rule"].(map[string]interface{})
			if rule == nil {
				continue
			}
			if _, sched := rule["schedule"]; sched {
				continue
			}
			pat, ok := h.WhenPattern(rule)
			if !ok {
				continue
			}
			bss, merr2 := h.MatchBindings(pat, event)
			if merr2 != nil {
				continue
			}
			if len(bss) > 0 && !dispatched {
				w.fail("dispatch-inconsistent-with-get", "event:stored-but-skipped", "ProcessEvent(%s, %s) did not dispatch %s although GetFact returns it as a live rule whose `when` %s matches", locName, h.Canon(event), id, h.Canon(pat))
			}
		}
	}
	if w.prof.Values {
		// every dispatched rule's constant action value appears once per binding
		var wantVals []string
		judge := true
		for id := range got {
			if skip(id) {
				judge = false
			}
		}
		for id, bss := range want {
			if skip(id) {
				judge = false
				break
			}
			vals, ok := w.constActionValues(locName, id)
			if !ok {
				judge = false
				break
			}
			for range bss {
				wantVals = append(wantVals, vals...)
			}
		}
		if judge {
			gotVals := h.ObsValues(fr)
			if h.MultisetKey(gotVals) != h.MultisetKey(wantVals) {
				w.fail("values-mismatch", "event:values", "ProcessEvent(%s, %s).Values = %v, expected %v (dispatched %v)", locName, h.Canon(event), gotVals, wantVals, want)
			}
		}
	}
	if len(want) > 0 {
		w.res.Nontrivial = append(w.res.Nontrivial, "dispatch|"+h.Canon(event)+"|"+w.model.StateKey())
	}
	return
}

// actionTargetsUncertain marks, in loc, every id that an action of a rule
// visible from loc writes or removes as a don't-care.
func (w *lw) actionTargetsUncertain(loc string) {
	names, _ := w.model.Ancestors(loc)
	for _, n := range names {
		for _, it := range w.model.Loc(n).Items {
			rule := h.RuleOf(it)
			if rule == nil {
				continue
			}
			var acts []interface{}
			if a, ok := rule["action"]; ok {
				acts = append(acts, a)
			}
			if as, ok := rule["actions"].([]interface{}); ok {
				acts = append(acts, as...)
			}
			for _, a := range acts {
				am, _ := a.(map[string]interface{})
				code, _ := am["code"].(string)
				for _, sub := range actOps(code) {
					if sub.Id != "" {
						w.model.MarkFault(loc, sub.Id)
					}
				}
			}
		}
	}
}

// constActionValues returns the canonical values of a rule's actions when
// they are all constant string literals ('...').
func (w *lw) constActionValues(loc, id string) ([]string, bool) {
	names, _ := w.model.Ancestors(loc)
	for _, n := range names {
		it, ok := w.model.Loc(n).Items[id]
		if !ok {
			continue
		}
		r := h.RuleOf(it)
		if r == nil {
			return nil, false
		}
		var acts []interface{}
		if a, ok := r["action"]; ok {
			acts = append(acts, a)
		}
		if as, ok := r["actions"].([]interface{}); ok {
			acts = append(acts, as...)
		}
		var out []string
		for _, a := range acts {
			am, ok := a.(map[string]interface{})
			if !ok {
				return nil, false
			}
			code, ok := am["code"].(string)
			if !ok || len(code) < 2 || code[0] != '\'' || code[len(code)-1] != '\'' || strings.Count(code, "'") != 2 {
				return nil, false
			}
			out = append(out, h.Canon(code[1:len(code)-1]))
		}
		return out, true
	}
	return nil, false
}

func (w *lw) checkRuleEnabled(ln, id string, p h.Prot) {
	l := w.model.Loc(ln)
	loc := w.eng.Loc(ln)
	var en bool
	var err error
	w.call("RuleEnabled", func() { en, err = loc.RuleEnabled(h.NewCtx(p), id) })
	if !w.model.Enabled(l) {
		if err == nil {
			w.fail("disabled-location-answers", "ruleenabled", "RuleEnabled(%s/%s) succeeded in a disabled location", ln, id)
		}
		return
	}
	it, ok := l.Items[id]
	if !ok || h.RuleOf(it) == nil || !w.model.Live(it) || w.model.IsUncertain(ln, id) || w.model.IsUncertain(ln, h.PropId(id, "disabled")) {
		return
	}
	want := !w.model.RuleDisabled(l, id)
	if err != nil || en != want {
		w.fail("rule-enabled-flag", "ruleenabled", "RuleEnabled(%s/%s) = %v %s, the model says %v", ln, id, en, isErr(err), want)
	}
}

func condKind(c *core.Condition) string {
	msg := c.Msg
	switch {
	case strings.Contains(msg, "Rule body missing"):
		return "rule-body-missing"
	case strings.Contains(msg, "lost rule"):
		return "lost-rule"
	case strings.Contains(msg, "duplicate id"):
		return "duplicate-id"
	case strings.Contains(msg, "loop"):
		return "loop"
	case strings.Contains(msg, "is not sortable"):
		return "array-not-sortable"
	}
	if len(msg) > 30 {
		msg = msg[:30]
	}
	return msg
}

// whenShapes classifies the `when` patterns of the rules named in a diff.
func (w *lw) whenShapes(loc, d string) string {
	names, _ := w.model.Ancestors(loc)
	shapes := map[string]bool{}
	for _, n := range names {
		for id, it := range w.model.Loc(n).Items {
			if !strings.Contains(d, " "+id+" ") {
				continue
			}
			if r := h.RuleOf(it); r != nil {
				if p, ok := h.WhenPattern(r); ok {
					shapes[whenShape(r, p)] = true
				}
			}
		}
	}
	var out []string
	for s := range shapes {
		out = append(out, s)
	}
	sort.Strings(out)
	return strings.Join(out, ",")
}

func whenShape(rule, p map[string]interface{}) string {
	form := "explicit"
	if w, ok := rule["when"].(map[string]interface{}); ok {
		if _, has := w["pattern"]; !has {
			form = "implicit"
		}
	}
	s := form
	if len(p) == 0 {
		return s + "+empty"
	}
	var walk func(v interface{})
	tags := map[string]bool{}
	walk = func(v interface{}) {
		switch y := v.(type) {
		case map[string]interface{}:
			if len(y) == 0 {
				tags["emptymap"] = true
			}
			for k, vv := range y {
				if strings.HasPrefix(k, "?") {
					tags["varkey"] = true
				}
				walk(vv)
			}
		case []interface{}:
			if len(y) == 0 {
				tags["emptyarray"] = true
			}
			for _, e := range y {
				walk(e)
			}
		case nil:
			tags["null"] = true
		}
	}
	walk(p)
	var ts []string
	for t := range tags {
		ts = append(ts, t)
	}
	sort.Strings(ts)
	if len(ts) > 0 {
		s += "+" + strings.Join(ts, "+")
	}
	return s
}

// after runs the post-operation battery selected by the profile.
func (w *lw) after(op h.Op) {
	if !w.prof.Battery {
		return
	}
	if op.Q {
		// nothing is observed after this operation: the next one meets the
		// location exactly as this one left it (expired items still unobserved)
		return
	}
	for _, ln := range w.locNames() {
		if _, ok := w.eng.Locs[ln]; !ok {
			if _, ok := w.model.Locs[ln]; !ok {
				continue
			}
		}
		l := w.model.Loc(ln)
		p := h.Prot{RK: w.model.ReadKeyOf(l), WK: w.model.WriteKeyOf(l)}
		if !w.model.Enabled(l) && !w.prof.Lifecycle {
			continue
		}
		// the order of the battery's parts comes from the plan: the first
		// observation after an expiry instant (or any other change) is not
		// always a GetFact, which would purge what the others should find
		doGets := func() {
			for _, id := range w.ids(ln) {
				w.checkGet(ln, id, p, op)
				if w.prof.Lifecycle {
					w.checkRuleEnabled(ln, id, p)
				}
			}
		}
		doSearch := func() {
			if w.prof.Search {
				for _, pat := range w.batteryMaps("patterns") {
					w.checkSearch(ln, pat, false, p, op)
					if len(w.model.Parents(l)) > 0 {
						w.checkSearch(ln, pat, true, p, op)
					}
				}
			}
		}
		doDispatch := func() {
			if w.prof.Dispatch {
				for _, ev := range w.batteryMaps("events") {
					want := w.checkDispatch(ln, ev, p, op)
					// a battery event runs actions like any other event
					w.applyActionEffects(h.Op{K: "event", Loc: ln, RK: p.RK, WK: p.WK}, want)
				}
			}
		}
		switch w.plan.CfgS("battery_order", "get-search-dispatch") {
		case "dispatch-search-get":
			doDispatch()
			doSearch()
			doGets()
		case "search-dispatch-get":
			doSearch()
			doDispatch()
			doGets()
		case "dispatch-get-search":
			doDispatch()
			doGets()
			doSearch()
		default:
			doGets()
			doSearch()
			doDispatch()
		}
		if w.prof.CheckStore {
			w.checkStore(ln)
		}
		if w.prof.CheckReload {
			w.checkReload(ln, p)
		}
	}
	if w.prof.Capacity && (op.K == "addfact" || op.K == "addrule") && w.lastAddOK {
		loc := w.eng.Loc(op.Loc)
		l := w.model.Loc(op.Loc)
		n, err := loc.StateSize(h.NewCtx(h.Prot{RK: w.model.ReadKeyOf(l)}))
		if err == nil && n > w.model.MaxFacts {
			w.fail("capacity-exceeded", "statesize", "after %s the location holds %d facts plus rules, MaxFacts is %d", op.K, n, w.model.MaxFacts)
		}
	}
	w.res.Nontrivial = append(w.res.Nontrivial, "state|"+op.K+"|"+w.model.StateKey())
}

func (w *lw) batteryMaps(key string) []map[string]interface{} {
	var out []map[string]interface{}
	if xs, ok := w.plan.Cfg[key].([]interface{}); ok {
		for _, x := range xs {
			if m, ok := x.(map[string]interface{}); ok {
				out = append(out, h.CloneMap(m))
			}
		}
	}
	return out
}

// checkStore: the durable content holds exactly the model's items (ids and,
// for the expiry instant, the same absolute time).
func (w *lw) checkStore(ln string) {
	dump := w.eng.Store.Dump(ln)
	l := w.model.Loc(ln)
	w.model.Purge(l)
	for id, it := range l.Items {
		if w.model.IsUncertain(ln, id) {
			continue
		}
		js, ok := dump[id]
		if !ok {
			w.fail("not-in-storage", "store:"+w.itemKind(it), "item %s/%s is live but missing from storage", ln, id)
		}
		_ = js
	}
	for id := range dump {
		if w.model.IsUncertain(ln, id) || w.model.Pending[ln][id] {
			continue
		}
		if _, ok := l.Items[id]; !ok {
			if w.isGhost(ln, id, h.ParseMap(dump[id])) {
				continue
			}
			w.fail("stale-in-storage", "store:"+w.goneKind(ln, id), "storage still holds %s/%s = %s which the model has deleted", ln, id, h.Trunc(dump[id], 200))
		}
	}
}

// checkReload: a location rebuilt from storage alone answers like the live one.
func (w *lw) checkReload(ln string, p h.Prot) {
	fresh, err := w.eng.Fresh(ln, w.eng.Store.Inner)
	if err != nil {
		w.fail("reload-failed", "fresh", "rebuilding %s from storage failed: %v", ln, err)
	}
	live := w.eng.Loc(ln)
	for _, id := range w.ids(ln) {
		if w.model.IsUncertain(ln, id) {
			continue
		}
		a, ea := live.GetFact(h.NewCtx(p), id)
		b, eb := fresh.GetFact(h.NewCtx(p), id)
		if (ea == nil) != (eb == nil) || (ea == nil && h.Canon(stripId(a)) != h.Canon(stripId(b))) {
			it := w.model.Loc(ln).Items[id]
			w.fail("reload-differs", "get:"+w.itemKind(it), "after reload GetFact(%s/%s): live=%s %s, reloaded=%s %s", ln, id, h.Canon(map[string]interface{}(a)), isErr(ea), h.Canon(map[string]interface{}(b)), isErr(eb))
		}
	}
	for _, pat := range w.batteryMaps("patterns") {
		a, ea := live.SearchFacts(h.NewCtx(p), core.Map(h.CloneMap(pat)), false)
		b, eb := fresh.SearchFacts(h.NewCtx(p), core.Map(h.CloneMap(pat)), false)
		if (ea == nil) != (eb == nil) {
			w.fail("reload-differs", "search-error", "after reload SearchFacts(%s): live %s reloaded %s", h.Canon(pat), isErr(ea), isErr(eb))
		}
		if ea == nil {
			skip := func(id string) bool { return w.model.IsUncertain(ln, id) || w.isGhost(ln, id, nil) }
			if d := h.DiffSets(h.ObsSearch(b), h.ObsSearch(a), skip); d != "" {
				w.fail("reload-differs", "search:"+diffKind(d), "after reload SearchFacts(%s, %s) differs from live: %s", ln, h.Canon(pat), d)
			}
		}
	}
	for _, ev := range w.batteryMaps("events") {
		a, ea := live.SearchRules(h.NewCtx(p), core.Map(h.CloneMap(ev)), false)
		b, eb := fresh.SearchRules(h.NewCtx(p), core.Map(h.CloneMap(ev)), false)
		if (ea != nil && strings.Contains(ea.Error(), "is not sortable")) || (eb != nil && strings.Contains(eb.Error(), "is not sortable")) {
			continue // known finding (array-not-sortable): whether the index sorts depends on what is indexed
		}
		certain := func(ids []string) []string {
			var out []string
			for _, id := range ids {
				if !w.model.IsUncertain(ln, id) {
					out = append(out, id)
				}
			}
			return out
		}
		if (ea == nil) != (eb == nil) || fmt.Sprint(certain(h.ObsRuleIds(a))) != fmt.Sprint(certain(h.ObsRuleIds(b))) {
			w.fail("reload-differs", "rules", "after reload SearchRules(%s, %s): live=%v %s reloaded=%v %s", ln, h.Canon(ev), h.ObsRuleIds(a), isErr(ea), h.ObsRuleIds(b), isErr(eb))
		}
	}
}
