package worlds

import (
	"fmt"
	"strings"
	"testing"
	"time"

	"github.com/Comcast/rulio/core"

	"verif/sim/h"
)

// C14 — script execution is contained.  Runs on the fake clock: a script
// that never terminates is `while(true){Env.sleep(d)}` (the sleep lets fake
// time pass; a pure busy loop cannot be simulated, see DESIGN.md).

func init() {
	h.Register(&h.World{Prop: "C14", Name: "scripts", Gen: genC14, Exec: execC14})
}

type c14Script struct {
	Family string      `json:"family"` // value | throw | invalid | nonterm | slow
	Code   string      `json:"code"`
	Want   interface{} `json:"want,omitempty"` // expected value (value/slow families)
	Var    string      `json:"var,omitempty"`  // a binding the script reads
	VarVal interface{} `json:"varval,omitempty"`
	MinNs  int64       `json:"min_ns,omitempty"` // fake time the script needs
	StepNs int64       `json:"step_ns,omitempty"`
}

func genC14Script(r *h.Rng, timeout time.Duration, timeoutsOn bool) c14Script {
	fam := r.Weighted([]int{4, 2, 2, 3, 2, 1})
	if fam == 5 {
		// one script evaluated for several binding sets (a `code` condition after an
		// `or`): every evaluation sees exactly its own bindings and a fresh scope
		return c14Script{Family: "isolation", Code: r.Pick([]string{
			"typeof seen === 'undefined' ? (seen = 1, true) : false",
			"typeof w === 'undefined' || typeof z === 'undefined'",
			"var n; n = (n || 0) + 1; n == 1",
		})}
	}
	if !timeoutsOn && fam == 3 {
		fam = 0 // without a limit a non-terminating script legitimately never returns
	}
	switch fam {
	case 0:
		switch r.Intn(5) {
		case 0:
			return c14Script{Family: "value", Code: "1+1", Want: float64(2)}
		case 1:
			return c14Script{Family: "value", Code: "({a: 1, b: 'x'})", Want: map[string]interface{}{"a": float64(1), "b": "x"}}
		case 2:
			return c14Script{Family: "value", Code: "'s' + 't'", Want: "st"}
		case 3:
			v := r.Pick([]string{"p", "q"})
			return c14Script{Family: "value", Code: "x + '!'", Want: v + "!", Var: "x", VarVal: v}
		default:
			return c14Script{Family: "value", Code: "var a = 3; a * 2", Want: float64(6)}
		}
	case 1:
		return c14Script{Family: "throw", Code: r.Pick([]string{"throw new Error('boom')", "undefinedFunction()", "null.x", "throw 'str'"})}
	case 2:
		return c14Script{Family: "invalid", Code: r.Pick([]string{"1 +", "function(", "var = 3", "({a:", "}"})}
	case 3:
		d := []time.Duration{time.Microsecond, time.Millisecond, 10 * time.Millisecond, 100 * time.Millisecond, time.Second}[r.Intn(5)]
		if d > timeout && timeout > 0 {
			d = timeout / 2
		}
		if d < timeout/400 {
			d = timeout / 400 // keep the number of interpreter iterations small
		}
		if d <= 0 {
			d = time.Microsecond
		}
		if timeout%d == 0 {
			// never let a wake-up of the script coincide with the watchdog's
			// timer: which of two timers due at one instant runs first is the
			// runtime's choice
			d += 7 * time.Nanosecond
		}
		code := fmt.Sprintf("while(true){Env.sleep(%d)}", int64(d))
		switch r.Intn(4) {
		case 0:
			// a script cannot talk its way out of the limit: not by catching ...
			code = fmt.Sprintf("try { while(true){Env.sleep(%d)} } catch(e) {} 'done'", int64(d))
		case 1:
			// ... and not by catching and carrying on
			code = fmt.Sprintf("for(;;){ try { while(true){Env.sleep(%d)} } catch(e) {} }", int64(d))
		}
		return c14Script{Family: "nonterm", Code: code, StepNs: int64(d)}
	default:
		k := r.Range(1, 5)
		budget := timeout
		if !timeoutsOn || budget <= 0 {
			budget = time.Second
		}
		d := budget / time.Duration(4*k)
		if d <= 0 {
			d = time.Nanosecond
		}
		return c14Script{Family: "slow", Code: fmt.Sprintf("for(var i=0;i<%d;i++){Env.sleep(%d)}; 'done'", k, int64(d)), Want: "done", MinNs: int64(d) * int64(k), StepNs: int64(d)}
	}
}

func genC14(r *h.Rng, tier string, idx int) *h.Plan {
	p := &h.Plan{Cfg: map[string]interface{}{}}
	p.Cfg["state"] = r.Pick([]string{"indexed", "linear"})
	// timeout configuration: location control, system default, disabled
	// (control-nodefault: the location has its own limit while the system default says "none")
	mode := r.Pick([]string{"control", "default", "disabled-flag", "negative", "control-nodefault", "control-zerodefault", "nodefault"})
	p.Cfg["timeout_mode"] = mode
	timeouts := []time.Duration{time.Millisecond, 50 * time.Millisecond, 100 * time.Millisecond, time.Second, 5 * time.Second}
	T := timeouts[r.Intn(len(timeouts))]
	p.Cfg["timeout_ns"] = int64(T)
	on := mode == "control" || mode == "default" || mode == "control-nodefault" || mode == "control-zerodefault"
	p.Cfg["shared_ctx"] = r.Bool()
	if r.P(1, 6) {
		// the same script text with and without the library that defines what it
		// calls, in either order: one finishes with a value, the other throws
		with := h.Op{K: "js", S: r.Pick([]string{"run", "action"}), J: map[string]interface{}{"family": "value", "code": "greet()", "want": "hello", "libs": []interface{}{"helpers"}}}
		without := h.Op{K: "js", S: r.Pick([]string{"run", "action"}), J: map[string]interface{}{"family": "throw", "code": "greet()"}}
		if r.Bool() {
			p.Ops = append(p.Ops, with, without)
		} else {
			p.Ops = append(p.Ops, without, with)
		}
	}
	n := r.Range(2, 6)
	for i := 0; i < n; i++ {
		s := genC14Script(r, T, on)
		place := r.Pick([]string{"run", "cond", "action"})
		if s.Family == "isolation" {
			place = "cond"
		}
		p.Ops = append(p.Ops, h.Op{K: "js", S: place, J: map[string]interface{}{
			"family": s.Family, "code": s.Code, "want": s.Want, "var": s.Var, "varval": s.VarVal, "min_ns": s.MinNs, "step_ns": s.StepNs}})
	}
	return p
}

func execC14(t *testing.T, plan *h.Plan, trace bool) *h.Result {
	res := &h.Result{}
	var tr []string
	opIdx := 0
	state := plan.CfgS("state", "indexed")
	h.Arm(15*time.Second, fmt.Sprintf("C14 run_seed=%d", plan.RunSeed))
	defer h.Disarm()
	fail := func(class, sig, f string, a ...interface{}) {
		if res.Viol == nil {
			res.Viol = &h.Violation{Property: "C14", Class: class, Sig: sig, Detail: fmt.Sprintf(f, a...), OpIdx: opIdx}
		}
	}
	var cur h.Op
	out := h.Bubble(t, func() {
		h.SeedProcess(plan.RunSeed)
		ps := h.ResetParams()
		mode := plan.CfgS("timeout_mode", "default")
		T := time.Duration(plan.CfgI("timeout_ns", int64(time.Second)))
		ctl := h.QuietControl()
		on := true
		switch mode {
		case "control":
			ctl.JavascriptTimeout = core.Duration(T)
			ps.DefaultJavascriptTimeout = time.Hour
		case "default":
			ps.DefaultJavascriptTimeout = T
		case "disabled-flag":
			ps.JavascriptTimeouts = false
			on = false
		case "negative":
			ctl.JavascriptTimeout = core.Duration(-1)
			on = false
		case "control-nodefault":
			ctl.JavascriptTimeout = core.Duration(T)
			ps.DefaultJavascriptTimeout = -1
		case "control-zerodefault":
			ctl.JavascriptTimeout = core.Duration(T)
			ps.DefaultJavascriptTimeout = 0
		case "nodefault":
			ps.DefaultJavascriptTimeout = -1
			on = false
		}
		ctl.Libraries = map[string]string{"helpers": "function greet() { return 'hello'; }"}
		back := h.NewBackend("mem")
		eng := h.NewCoreEngine(state, back, ctl)
		loc := eng.Loc("L")
		start0 := time.Now()
		var sharedCtx *core.Context
		if b, _ := plan.Cfg["shared_ctx"].(bool); b {
			sharedCtx = h.NewCtx(h.Prot{})
		}
		for i, op := range plan.Ops {
			opIdx = i
			cur = op
			if res.Viol != nil {
				break
			}
			sj := op.Map()
			fam, _ := sj["family"].(string)
			code, _ := sj["code"].(string)
			want := sj["want"]
			minNs := int64(0)
			if f, ok := sj["min_ns"].(float64); ok {
				minNs = int64(f)
			}
			stepNs := int64(0)
			if f, ok := sj["step_ns"].(float64); ok {
				stepNs = int64(f)
			}
			vname, _ := sj["var"].(string)
			var libs []string
			if xs, ok := sj["libs"].([]interface{}); ok {
				for _, x := range xs {
					if l, ok := x.(string); ok {
						libs = append(libs, l)
					}
				}
			}
			ctx := h.NewCtx(h.Prot{})
			if sharedCtx != nil {
				// one caller context for the whole history: what an earlier
				// script (a stopped one in particular) leaves in it must not
				// reach a later script
				ctx = sharedCtx
			}
			start := time.Now()
			var val interface{}
			var err error
			failedNode := false
			switch op.S {
			case "run":
				bs := core.Bindings{}
				if vname != "" {
					bs[vname] = sj["varval"]
				}
				val, err = loc.RunJavascript(ctx, code, libs, &bs, nil)
			case "cond":
				// the script as a `code` condition term; a kept binding = non-null/true value
				q := map[string]interface{}{"code": code}
				if fam == "isolation" {
					q = map[string]interface{}{"and": []interface{}{
						map[string]interface{}{"or": []interface{}{
							map[string]interface{}{"code": "({w: 'a'})"}, map[string]interface{}{"code": "({w: 'bb'})"}, map[string]interface{}{"code": "({z: 'c'})"}}},
						q}}
				}
				if vname != "" {
					q = map[string]interface{}{"and": []interface{}{map[string]interface{}{"code": fmt.Sprintf("({%s: %s})", vname, h.Canon(sj["varval"]))}, q}}
				}
				var qr *core.QueryResult
				qr, err = loc.Query(ctx, h.Canon(q))
				if err == nil && qr != nil {
					val = len(qr.Bss)
				}
			case "action":
				rule := map[string]interface{}{
					"when":   map[string]interface{}{"pattern": map[string]interface{}{"fire": "?x"}},
					"action": map[string]interface{}{"code": code},
				}
				if len(libs) > 0 {
					ls := make([]interface{}, len(libs))
					for i, l := range libs {
						ls[i] = l
					}
					rule["action"] = map[string]interface{}{"code": code, "opts": map[string]interface{}{"libraries": ls}}
				}
				if _, aerr := loc.AddRule(ctx, "jsrule", core.Map(rule)); aerr != nil {
					// a script that does not compile is refused when the rule is added: an error, as required
					err = aerr
					failedNode = true
				} else {
					xv := "p"
					if vname != "" {
						xv, _ = sj["varval"].(string)
					}
					fr, cond := loc.ProcessEvent(ctx, core.Map{"fire": xv})
					if cond != nil {
						err = fmt.Errorf("%s", cond.Msg)
					}
					nodes := 0
					for _, er := range fr.Children {
						for _, erc := range er.Children {
							for _, era := range erc.Children {
								nodes++
								if era.Disposition == nil || era.Disposition.Msg != "complete" {
									failedNode = true
								} else {
									val = era.Value
								}
							}
						}
					}
					if nodes != 1 && cond == nil {
						fail("action-node-count", "action", "expected one action node for the rule, found %d", nodes)
					}
					loc.RemRule(ctx, "jsrule")
				}
			}
			el := time.Since(start)
			if trace {
				tr = append(tr, fmt.Sprintf("[+%v] op %d: %s %s %q -> val=%v err=%v failedNode=%v elapsed=%v", time.Since(start0), i, op.S, fam, code, val, err, failedNode, el))
			}
			isFail := err != nil || failedNode
			switch fam {
			case "isolation":
				if isFail {
					fail("finishing-script-failed", op.S+":"+fam, "script %q (%s) finishes within the limit but reported %v", code, op.S, err)
				} else if val != 3 {
					fail("script-scope-leaks", "cond:isolation", "condition script %q evaluated for the binding sets {w:a}, {w:bb}, {z:c} kept %v of them; evaluated each in its own scope with exactly its own bindings it keeps all 3", code, val)
				}
			case "value", "slow":
				if isFail {
					fail("finishing-script-failed", op.S+":"+fam, "script %q (%s, timeout mode %s %v) finishes within the limit but reported %v", code, op.S, mode, T, err)
					break
				}
				switch op.S {
				case "run", "action":
					if h.Canon(val) != h.Canon(want) {
						fail("script-value", op.S+":"+fam, "script %q returned %s, expected %s", code, h.Canon(val), h.Canon(want))
					}
				case "cond":
					if val != 1 {
						fail("script-value", "cond:"+fam, "condition script %q (non-null value) kept %v bindings, expected 1", code, val)
					}
				}
				if int64(el) < minNs {
					fail("script-too-fast", op.S+":"+fam, "script %q needs %v of simulated time but returned after %v", code, time.Duration(minNs), el)
				}
			case "throw", "invalid":
				if !isFail {
					fail("failing-script-reported-success", op.S+":"+fam, "script %q (%s) must be reported as an error, got value %v", code, op.S, val)
				}
			case "nonterm":
				if !on {
					break
				}
				if !isFail {
					fail("timeout-reported-success", op.S, "non-terminating script %q (%s) returned (%v, nil): stopped scripts must be reported as failed", code, op.S, val)
				}
				bound := T + time.Duration(stepNs) + time.Second
				if el > bound {
					fail("timeout-late", op.S, "non-terminating script %q with limit %v returned after %v of simulated time (bound %v)", code, T, el, bound)
				}
			}
			res.Nontrivial = append(res.Nontrivial, fmt.Sprintf("%s|%s|%s|%s|%v", op.S, fam, code, mode, T))
		}
		res.SimNanos = int64(time.Since(start0))
		back.Close()
	})
	if res.Viol == nil {
		if out.Deadlock {
			fam := ""
			if m := cur.Map(); m != nil {
				fam, _ = m["family"].(string)
			}
			res.Viol = &h.Violation{Property: "C14", Class: "script-hang", Sig: cur.S + ":" + fam, OpIdx: opIdx,
				Detail: fmt.Sprintf("the caller never got control back from %s script %s: every goroutine of the simulated process is blocked (%s)", cur.S, h.Canon(cur.J), strings.TrimSpace(out.Msg))}
		} else if out.Panic != nil {
			res.Viol = &h.Violation{Property: "C14", Class: "panic", Sig: cur.S, OpIdx: opIdx, Detail: fmt.Sprintf("%v\n%s", out.Panic, h.Trunc(out.Stack, 1500))}
		}
	}
	res.Trace = tr
	return res
}
