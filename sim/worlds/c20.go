package worlds

import (
	"testing"

	"verif/sim/h"
)

// C20 (a) — capacity: a location never holds more facts plus rules than its
// configured maximum through the public add operations, and an add refused
// for capacity has no side effects.

func init() {
	h.Register(&h.World{Prop: "C20", Name: "capacity", Share: 2, Gen: genC20Cap, Exec: func(t *testing.T, p *h.Plan, tr bool) *h.Result {
		return execLocWorld(t, p, tr, lwProfile{Prop: "C20", Battery: true, Search: true, CheckStore: true, Capacity: true})
	}})
}

func genC20Cap(r *h.Rng, tier string, idx int) *h.Plan {
	p := &h.Plan{Cfg: map[string]interface{}{}}
	p.Cfg["state"] = r.Pick([]string{"indexed", "linear"})
	p.Cfg["storage"] = "mem"
	p.Cfg["max_facts"] = r.Range(1, 6)
	p.Cfg["locs"] = toIface([]string{"L"})
	ids := []string{"a", "b", "c", "d", "e", "f", "g"}
	p.Cfg["ids"] = toIface(ids)
	p.Cfg["patterns"] = []interface{}{map[string]interface{}{"n": "?n"}}
	n := r.Range(6, 26)
	for i := 0; i < n; i++ {
		switch r.Weighted([]int{10, 3, 3, 1, 1, 1}) {
		case 0:
			id := r.Pick(ids)
			if r.P(1, 5) {
				id = ""
			}
			p.Ops = append(p.Ops, h.Op{K: "addfact", Loc: "L", Id: id, J: map[string]interface{}{"n": r.Pick([]string{"x", "y"}), "i": float64(i)}})
		case 1:
			p.Ops = append(p.Ops, h.Op{K: "remfact", Loc: "L", Id: r.Pick(ids)})
		case 2:
			p.Ops = append(p.Ops, h.Op{K: "addrule", Loc: "L", Id: r.Pick(ids), J: map[string]interface{}{
				"when": map[string]interface{}{"pattern": map[string]interface{}{"ev": "?e"}}, "action": map[string]interface{}{"code": "1"}}})
		case 3:
			p.Ops = append(p.Ops, h.Op{K: "setprop", Loc: "L", Id: r.Pick(ids), S: "color", J: "red"})
		case 4:
			p.Ops = append(p.Ops, h.Op{K: "enable", Loc: "L", Id: r.Pick(ids), B: false})
		case 5:
			p.Ops = append(p.Ops, h.Op{K: "reload"})
		}
	}
	return p
}
