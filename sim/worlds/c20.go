package worlds

import (
	"fmt"
	"sort"
	"sync"
	"testing"
	"testing/synctest"
	"time"

	"github.com/Comcast/rulio/core"

	"verif/sim/h"
)

// synctestSettle waits until every other goroutine of the bubble is blocked.
func synctestSettle() { synctest.Wait() }

// C20 (a) — capacity: a location never holds more facts plus rules than its
// configured maximum through the public add operations, and an add refused
// for capacity has no side effects.

func init() {
	h.Register(&h.World{Prop: "C20", Name: "capacity", Share: 2, Gen: genC20Cap, Exec: func(t *testing.T, p *h.Plan, tr bool) *h.Result {
		return execLocWorld(t, p, tr, lwProfile{Prop: "C20", Battery: true, Search: true, CheckStore: true, Capacity: true})
	}})
}

func genC20Cap(r *h.Rng, tier string, idx int) *h.Plan {
	p := &h.Plan{Cfg: map[string]interface{}{}}
	p.Cfg["state"] = r.Pick([]string{"indexed", "linear"})
	p.Cfg["storage"] = "mem"
	p.Cfg["max_facts"] = r.Range(1, 6)
	p.Cfg["locs"] = toIface([]string{"L"})
	ids := []string{"a", "b", "c", "d", "e", "f", "g"}
	p.Cfg["ids"] = toIface(ids)
	p.Cfg["patterns"] = []interface{}{map[string]interface{}{"n": "?n"}}
	n := r.Range(6, 26)
	for i := 0; i < n; i++ {
		switch r.Weighted([]int{10, 3, 3, 1, 1, 1}) {
		case 0:
			id := r.Pick(ids)
			if r.P(1, 5) {
				id = ""
			}
			p.Ops = append(p.Ops, h.Op{K: "addfact", Loc: "L", Id: id, J: map[string]interface{}{"n": r.Pick([]string{"x", "y"}), "i": float64(i)}})
		case 1:
			p.Ops = append(p.Ops, h.Op{K: "remfact", Loc: "L", Id: r.Pick(ids)})
		case 2:
			p.Ops = append(p.Ops, h.Op{K: "addrule", Loc: "L", Id: r.Pick(ids), J: map[string]interface{}{
				"when": map[string]interface{}{"pattern": map[string]interface{}{"ev": "?e"}}, "action": map[string]interface{}{"code": "1"}}})
		case 3:
			p.Ops = append(p.Ops, h.Op{K: "setprop", Loc: "L", Id: r.Pick(ids), S: "color", J: "red"})
		case 4:
			p.Ops = append(p.Ops, h.Op{K: "enable", Loc: "L", Id: r.Pick(ids), B: false})
		case 5:
			p.Ops = append(p.Ops, h.Op{K: "reload"})
		}
	}
	return p
}

// ---- (b) OutboundBreaker, (c) Throttle: fake-clock arrival patterns ---------

func init() {
	h.Register(&h.World{Prop: "C20", Name: "breaker", Share: 2, Gen: genC20Breaker, Exec: execC20Breaker})
	h.Register(&h.World{Prop: "C20", Name: "throttle", Share: 1, Gen: genC20Throttle, Exec: execC20Throttle})
}

func genC20Breaker(r *h.Rng, tier string, idx int) *h.Plan {
	p := &h.Plan{Cfg: map[string]interface{}{}}
	limit := r.Range(1, 6)
	interval := []time.Duration{time.Second, 2 * time.Second, 10 * time.Second, 500 * time.Millisecond}[r.Intn(4)]
	p.Cfg["limit"] = limit
	p.Cfg["interval_ns"] = int64(interval)
	tick := interval / 20
	segs := r.Range(1, 6)
	if r.P(1, 4) {
		// window-edge scenario: a call opens the window, more calls arrive
		// part-way into a tick, then nothing happens for about one interval
		// (from just under it to a few ticks over it), then a burst
		segs = r.Range(0, 2)
		p.Ops = append(p.Ops, h.Op{K: "burst", N: int64(r.Range(1, limit))})
		p.Ops = append(p.Ops, h.Op{K: "sleep", N: int64(time.Duration(r.Range(1, 99)) * tick / 100)})
		p.Ops = append(p.Ops, h.Op{K: "burst", N: int64(r.Range(1, limit))})
		p.Ops = append(p.Ops, h.Op{K: "sleep", N: int64(interval + time.Duration(r.Range(-30, 50))*tick/20)})
		p.Ops = append(p.Ops, h.Op{K: "burst", N: int64(r.Range(1, 3*limit)), B: r.Bool()})
	}
	for s := 0; s < segs; s++ {
		switch r.Weighted([]int{3, 1, 1, 2, 2, 2}) {
		case 0: // burst at one instant (k callers at the same instant)
			p.Ops = append(p.Ops, h.Op{K: "burst", N: int64(r.Range(1, 3*limit)), B: r.Bool()})
		case 1: // steady polling faster than a tick, for longer than the interval
			period := tick / time.Duration(r.Range(2, 10))
			if period <= 0 {
				period = time.Microsecond
			}
			n := int((interval*time.Duration(r.Range(2, 4)) + interval/2) / period)
			if n > 4000 {
				n = 4000
				period = (interval*3 + interval/2) / 4000
			}
			p.Ops = append(p.Ops, h.Op{K: "poll", N: int64(period), C: n})
		case 2: // steady polling slower than a tick
			period := tick*time.Duration(r.Range(1, 5)) + time.Duration(r.Range(0, int(tick/time.Microsecond)))*time.Microsecond
			n := int(interval * time.Duration(r.Range(2, 3)) / period)
			p.Ops = append(p.Ops, h.Op{K: "poll", N: int64(period), C: n + 1})
		case 3:
			p.Ops = append(p.Ops, h.Op{K: "sleep", N: int64(time.Duration(r.Range(1, 30)) * tick / 2)})
		case 4: // part of a tick: what follows arrives inside a tick, not on its boundary
			p.Ops = append(p.Ops, h.Op{K: "sleep", N: int64(time.Duration(r.Range(1, 99)) * tick / 100)})
		case 5: // an idle gap about as long as the interval (just under .. a few ticks over)
			p.Ops = append(p.Ops, h.Op{K: "sleep", N: int64(interval + time.Duration(r.Range(-30, 70))*tick/20)})
		}
	}
	return p
}

func execC20Breaker(t *testing.T, plan *h.Plan, trace bool) *h.Result {
	res := &h.Result{}
	var tr []string
	h.Arm(60*time.Second, "C20 breaker")
	defer h.Disarm()
	opIdx := 0
	fail := func(class, sig, f string, a ...interface{}) {
		if res.Viol == nil {
			res.Viol = &h.Violation{Property: "C20", Class: class, Sig: "breaker:" + sig, Detail: fmt.Sprintf(f, a...), OpIdx: opIdx}
		}
	}
	out := h.Bubble(t, func() {
		h.SeedProcess(plan.RunSeed)
		limit := plan.CfgI("limit", 1)
		interval := time.Duration(plan.CfgI("interval_ns", int64(time.Second)))
		tick := interval / 20
		b, err := core.NewOutboundBreaker(limit, interval)
		if err != nil {
			panic(err)
		}
		start := time.Now()
		var mu sync.Mutex
		var admits []time.Duration // admission instants
		var polls []time.Duration  // every call
		call := func() {
			ok := b.Zap()
			at := time.Since(start)
			mu.Lock()
			polls = append(polls, at)
			if ok {
				admits = append(admits, at)
			}
			mu.Unlock()
		}
		for i, op := range plan.Ops {
			opIdx = i
			switch op.K {
			case "sleep":
				time.Sleep(time.Duration(op.N))
			case "burst":
				if op.B {
					var wg sync.WaitGroup
					for k := int64(0); k < op.N; k++ {
						wg.Add(1)
						go func() { defer wg.Done(); call() }()
					}
					wg.Wait()
				} else {
					for k := int64(0); k < op.N; k++ {
						call()
					}
				}
			case "poll":
				for k := 0; k < op.C; k++ {
					call()
					time.Sleep(time.Duration(op.N))
				}
			}
		}
		sort.Slice(admits, func(i, j int) bool { return admits[i] < admits[j] })
		sort.Slice(polls, func(i, j int) bool { return polls[i] < polls[j] })
		if trace {
			tr = append(tr, fmt.Sprintf("limit=%d interval=%v admits=%v npolls=%d", limit, interval, admits, len(polls)))
		}
		// (1) every window of length `interval` holds at most `limit` admissions
		for i := range admits {
			j := i + int(limit)
			if j < len(admits) && admits[j]-admits[i] < interval {
				fail("window-exceeded", "window", "limit %d per %v: admissions at %v .. %v are %d calls within %v", limit, interval, admits[i], admits[j], limit+1, admits[j]-admits[i])
				break
			}
		}
		// (2) recovery while polled: after a window has filled up, a call made at
		// or after (the oldest admission of that window + interval + one tick) is admitted
		for i := 0; i+int(limit) <= len(admits); i++ {
			oldest := admits[i]
			reopen := oldest + interval + tick + time.Millisecond
			// the first poll at/after reopen (if any) must be admitted, provided the
			// window is otherwise open: count admissions in (pollTime-interval, pollTime)
			for _, pt := range polls {
				if pt < reopen {
					continue
				}
				inWindow := 0
				for _, a := range admits {
					if a > pt-interval-tick-time.Millisecond && a < pt {
						inWindow++
					}
				}
				admitted := false
				for _, a := range admits {
					if a == pt {
						admitted = true
					}
				}
				if inWindow < int(limit) && !admitted {
					fail("no-recovery-while-polled", "recovery", "limit %d per %v: the call at %v was refused although only %d admissions lie within the preceding %v (admissions %v)", limit, interval, pt, inWindow, interval+tick, tailDur(admits, 8))
				}
				break
			}
			if res.Viol != nil {
				break
			}
		}
		res.SimNanos = int64(time.Since(start))
		res.Count("breaker_calls", int64(len(polls)))
		res.Count("breaker_admissions", int64(len(admits)))
		if len(admits) < len(polls) {
			res.Nontrivial = append(res.Nontrivial, fmt.Sprintf("%d|%v|%s", limit, interval, h.Sha(h.Canon(plan.Ops))))
		}
	})
	if res.Viol == nil && out.Panic != nil {
		res.Viol = &h.Violation{Property: "C20", Class: "panic", Sig: "breaker", OpIdx: opIdx, Detail: fmt.Sprintf("%v\n%s", out.Panic, h.Trunc(out.Stack, 1200))}
	}
	res.Trace = tr
	return res
}

func tailDur(xs []time.Duration, n int) []time.Duration {
	if len(xs) > n {
		return xs[len(xs)-n:]
	}
	return xs
}

func genC20Throttle(r *h.Rng, tier string, idx int) *h.Plan {
	p := &h.Plan{Cfg: map[string]interface{}{}}
	p.Cfg["limit"] = r.Range(1, 3)
	p.Cfg["interval_ns"] = int64(time.Duration(r.Range(1, 4)) * time.Second)
	p.Cfg["attempts"] = r.Range(1, 5)
	p.Cfg["pending_limit"] = r.Range(0, 4)
	p.Cfg["pause_ns"] = int64(time.Duration(r.Range(50, 900)) * time.Millisecond)
	n := r.Range(2, 14)
	for i := 0; i < n; i++ {
		// submissions at distinct instants (odd microsecond residues), some close together
		gap := time.Duration(r.Range(0, 700))*time.Millisecond + time.Duration(2*i+1)*time.Microsecond
		p.Ops = append(p.Ops, h.Op{K: "submit", N: int64(gap), C: i})
	}
	return p
}

func execC20Throttle(t *testing.T, plan *h.Plan, trace bool) *h.Result {
	res := &h.Result{}
	var tr []string
	h.Arm(60*time.Second, "C20 throttle")
	defer h.Disarm()
	fail := func(class, sig, f string, a ...interface{}) {
		if res.Viol == nil {
			res.Viol = &h.Violation{Property: "C20", Class: class, Sig: "throttle:" + sig, Detail: fmt.Sprintf(f, a...), OpIdx: 0}
		}
	}
	out := h.Bubble(t, func() {
		h.SeedProcess(plan.RunSeed)
		limit := plan.CfgI("limit", 1)
		interval := time.Duration(plan.CfgI("interval_ns", int64(time.Second)))
		b, _ := core.NewOutboundBreaker(limit, interval)
		pendingLimit := int(plan.CfgI("pending_limit", 1))
		th, _ := core.NewThrottle(int(plan.CfgI("attempts", 1)), pendingLimit, time.Duration(plan.CfgI("pause_ns", int64(time.Second))), b)
		start := time.Now()
		var mu sync.Mutex
		ran := map[int]int{}
		results := map[int]string{}
		maxPending := 0
		var wg sync.WaitGroup
		for _, op := range plan.Ops {
			time.Sleep(time.Duration(op.N))
			k := op.C
			wg.Add(1)
			go func() {
				defer wg.Done()
				err := th.Submit(func() error {
					mu.Lock()
					ran[k]++
					mu.Unlock()
					return nil
				})
				mu.Lock()
				if err == nil {
					results[k] = "ok"
				} else {
					results[k] = err.Error()
				}
				mu.Unlock()
			}()
			synctestSettle()
			pn, _ := th.Pending()
			if pn > maxPending {
				maxPending = pn
			}
		}
		wg.Wait()
		pn, _ := th.Pending()
		if pn != 0 {
			fail("pending-not-zero", "pending", "after every submission returned, Pending() = %d", pn)
		}
		if maxPending > pendingLimit+1 {
			fail("pending-exceeded", "pending", "Pending() reached %d with pending limit %d", maxPending, pendingLimit)
		}
		for k, n := range ran {
			if n > 1 {
				fail("function-ran-twice", "submit", "submission %d ran its function %d times", k, n)
			}
		}
		for k, r := range results {
			if r == "ok" && ran[k] != 1 {
				fail("ok-without-run", "submit", "submission %d returned success but its function ran %d times", k, ran[k])
			}
			if r != "ok" && ran[k] != 0 {
				fail("refused-but-ran", "submit", "submission %d returned %q but its function ran", k, r)
			}
		}
		if trace {
			tr = append(tr, fmt.Sprintf("results=%v ran=%v maxPending=%d", results, ran, maxPending))
		}
		res.SimNanos = int64(time.Since(start))
		refused := 0
		for _, r := range results {
			if r != "ok" {
				refused++
			}
		}
		if refused > 0 {
			res.Nontrivial = append(res.Nontrivial, h.Sha(h.Canon(plan.Cfg)+h.Canon(plan.Ops)))
		}
		res.Count("throttle_submissions", int64(len(results)))
		res.Count("throttle_refused", int64(refused))
	})
	if res.Viol == nil {
		if out.Deadlock {
			res.Viol = &h.Violation{Property: "C20", Class: "deadlock", Sig: "throttle", Detail: out.Msg}
		} else if out.Panic != nil {
			res.Viol = &h.Violation{Property: "C20", Class: "panic", Sig: "throttle", Detail: fmt.Sprintf("%v\n%s", out.Panic, h.Trunc(out.Stack, 1200))}
		}
	}
	res.Trace = tr
	return res
}
