package worlds

import (
	"fmt"
	"strings"
	"testing"

	"verif/sim/h"
)

// C02 — fact search returns exactly the stored facts that match.

func init() {
	h.Register(&h.World{Prop: "C02", Name: "facts", Gen: genC02, Exec: func(t *testing.T, p *h.Plan, tr bool) *h.Result {
		return execLocWorld(t, p, tr, lwProfile{Prop: "C02", Battery: true, Search: true, CheckStore: false})
	}})
}

func genC02(r *h.Rng, tier string, idx int) *h.Plan {
	p := &h.Plan{Cfg: map[string]interface{}{}}
	p.Cfg["state"] = r.Pick([]string{"indexed", "linear"})
	p.Cfg["storage"] = "mem"
	if r.P(1, 10) {
		p.Cfg["storage"] = "bolt"
	}
	limit := 0
	if r.P(1, 3) {
		limit = 6
		p.Cfg["term_limit"] = limit
	}
	inject := r.P(1, 4)
	if inject {
		// with id injection the engine adds `_id` to stored facts; patterns
		// with a property variable would bind it, so they are not generated
		p.Cfg["id_inject"] = true
	}
	ids := []string{"f1", "f2", "f3", "f4", "f5", "f6"}
	if limit == 0 && r.P(1, 4) {
		// unusual but legal ids: "ids supplied by the caller are kept"
		// (not together with the tiny term limit of some runs: under it the indexed
		// state cannot even look for the dependents of an id that long)
		ids = []string{"!note 1", "a b", "\u00fcn\u00ef\u4e2d", "x.y", "007", "!", strings.Repeat("long-", 60), "?q"}
		p.Cfg["mode3"] = "oddids"
	}
	p.Cfg["ids"] = toIface(ids)
	p.Cfg["locs"] = toIface([]string{"L"})
	depth := 2
	if r.P(1, 4) {
		depth = 0 // scalar-only facts: repeated variables are generated
	}
	o := h.GenOpts{Depth: depth, LongStr: limit > 0, LongLimit: limit, Empties: r.P(1, 3), Nulls: r.P(1, 3)}
	n := r.Range(5, 22)
	var facts []map[string]interface{}
	var patterns []interface{}
	// array rewrites: an id is rewritten with a value that differs from the stored one
	// only inside an array (order, or one element replaced at equal length): get returns
	// the value last written, a search binds the array last written
	arrays := r.P(1, 5)
	if arrays {
		p.Cfg["mode"] = "arrayrewrites"
		ids = ids[:3]
	}
	genArr := func() map[string]interface{} {
		dom := []string{"a", "b", "c"}
		k := r.Range(2, 3)
		arr := make([]interface{}, k)
		for j := range arr {
			arr[j] = r.Pick(dom)
		}
		f := map[string]interface{}{"route": arr, "kind": "trip"}
		// (no second array in the fact: a pattern drawn from it could bind one
		// variable to two arrays, which the matcher decides by iteration order)
		return f
	}
	for i := 0; i < n; i++ {
		switch r.Weighted([]int{10, 4, 2, 3, 1, 1, 1}) {
		case 6:
			// an overwrite that is refused: what the id held before stays stored AND found
			f := r.PickAny([]interface{}{
				map[string]interface{}{"rule": map[string]interface{}{"when": float64(5), "action": map[string]interface{}{"code": "1"}}},
				map[string]interface{}{"rule": map[string]interface{}{"when": map[string]interface{}{"pattern": "nomap"}, "action": map[string]interface{}{"code": "1"}}},
				map[string]interface{}{"k": "v", "ttl": "yesterday"},
				map[string]interface{}{"k": "v", "expires": float64(5)},
			}).(map[string]interface{})
			p.Ops = append(p.Ops, h.Op{K: "addfact", Loc: "L", Id: r.Pick(ids), J: f})
		case 0:
			f := h.GenFact(r, o)
			if arrays && r.P(3, 4) {
				f = genArr()
			}
			facts = append(facts, f)
			id := r.Pick(ids)
			if r.P(1, 5) {
				id = ""
			}
			p.Ops = append(p.Ops, h.Op{K: "addfact", Loc: "L", Id: id, J: f})
		case 1:
			p.Ops = append(p.Ops, h.Op{K: "remfact", Loc: "L", Id: r.Pick(ids)})
		case 2:
			p.Ops = append(p.Ops, h.Op{K: "getfact", Loc: "L", Id: r.Pick(ids)})
		case 3:
			if len(facts) > 0 {
				po := &h.PatOpts{VarP: r.Range(1, 5), DropP: r.Range(0, 5), Perturb: r.P(1, 5), PropVar: !inject && r.P(1, 4), Reuse: depth == 0}
				pat := h.GenPatternFrom(r, facts[r.Intn(len(facts))], po)
				p.Ops = append(p.Ops, h.Op{K: "search", Loc: "L", J: pat})
			}
		case 4:
			p.Ops = append(p.Ops, h.Op{K: "reload", B: false})
		case 5:
			p.Ops = append(p.Ops, h.Op{K: "clear", Loc: "L"})
		}
	}
	if r.P(1, 12) {
		// many generated ids in one run: "omitted ids are generated fresh and
		// unique" is a statement about every id the process hands out, and a
		// generator that repeats itself every so many calls shows within one run
		// whatever its phase is when the run starts
		p.Cfg["mode2"] = "manyids"
		for i := 0; i < 40; i++ {
			p.Ops = append(p.Ops, h.Op{K: "addfact", Loc: "L", Id: "", J: map[string]interface{}{"gen": float64(i % 3)}})
			if i%8 == 7 {
				p.Ops = append(p.Ops, h.Op{K: "clear", Loc: "L"})
			}
		}
	}
	// battery patterns derived from the facts of the plan
	for i := 0; i < 5 && len(facts) > 0; i++ {
		po := &h.PatOpts{VarP: r.Range(1, 6), DropP: r.Range(0, 6), Perturb: r.P(1, 6), PropVar: !inject && r.P(1, 5), Reuse: depth == 0}
		patterns = append(patterns, h.GenPatternFrom(r, facts[r.Intn(len(facts))], po))
	}
	if arrays {
		patterns = append(patterns, map[string]interface{}{"route": "?r"}, map[string]interface{}{"route": []interface{}{r.Pick([]string{"a", "b", "c"})}},
			map[string]interface{}{"route": []interface{}{"?x"}})
	}
	if r.P(1, 3) {
		patterns = append(patterns, map[string]interface{}{})
	}
	if r.P(1, 3) {
		patterns = append(patterns, map[string]interface{}{r.Pick(h.GenKeys): "?x"})
	}
	if !inject && r.P(1, 4) {
		patterns = append(patterns, map[string]interface{}{"?k": h.GenScalar(r, h.GenOpts{})})
	}
	p.Cfg["patterns"] = patterns
	_ = fmt.Sprint
	return p
}

func toIface(xs []string) []interface{} {
	out := make([]interface{}, len(xs))
	for i, x := range xs {
		out[i] = x
	}
	return out
}
