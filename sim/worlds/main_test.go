//go:debug randseednop=0

package worlds

import (
	"testing"

	"verif/sim/h"
)

// TestWorker is the entry point of the simulation worker process; the
// orchestrator selects the property, shard and seeds through VERIF_* variables.
func TestWorker(t *testing.T) {
	h.StartWatchdog()
	h.RunWorker(t)
}
