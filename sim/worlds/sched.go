//go:build simrt

package worlds

import (
	"sort"

	"github.com/Comcast/rulio/zzverif/simrt"

	"verif/sim/h"
)

// Scheduler glue for the instrumented build: converts a plan's tape into a
// simrt tape, and derives PCT-style pre-emption points from a dry run.

func simTape(p *h.Plan) simrt.Tape {
	t := simrt.Tape{Seed: p.Tape.Seed, Preempt: map[int64]bool{}, MapOrder: p.Tape.MapOrder}
	for _, s := range p.Tape.Preempt {
		t.Preempt[s] = true
	}
	return t
}

// choosePreemptions draws d distinct yield numbers in [0, yields) from the tape's seed.
func choosePreemptions(seed uint64, d int, yields int64) []int64 {
	if yields <= 0 || d <= 0 {
		return nil
	}
	r := h.NewRng(seed ^ 0x5ca1ab1e)
	set := map[int64]bool{}
	for i := 0; i < d*4 && len(set) < d; i++ {
		set[int64(r.U64()%uint64(yields))] = true
	}
	out := make([]int64, 0, len(set))
	for s := range set {
		out = append(out, s)
	}
	sort.Slice(out, func(i, j int) bool { return out[i] < out[j] })
	return out
}
