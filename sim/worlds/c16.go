package worlds

import (
	"fmt"
	"sort"
	"strings"
	"sync"
	"testing"
	"time"

	"github.com/gorhill/cronexpr"

	"github.com/Comcast/rulio/core"
	"github.com/Comcast/rulio/cron"

	"verif/sim/h"
)

// C16 — cron services fire each job when due, once, and never after removal.
// World A: the in-memory cron.Cron, real code, running on the fake clock with
// its own broadcaster (created inside the bubble).

func init() {
	h.Register(&h.World{Prop: "C16", Name: "memcron", Share: 2, Gen: genC16A, Exec: execC16A})
}

var c16Exprs = []string{"* * * * * * *", "*/2 * * * * * *", "*/5 * * * * * *", "0 * * * * * *"}

func genC16A(r *h.Rng, tier string, idx int) *h.Plan {
	p := &h.Plan{Cfg: map[string]interface{}{}}
	ids := []string{"j1", "j2", "j3"}
	p.Cfg["pause_ns"] = int64(time.Duration(r.Range(1, 5)) * time.Second)
	// the cron's capacity: ample, or so small that the timeline fills up
	p.Cfg["limit"] = float64(1000)
	if r.P(1, 4) {
		p.Cfg["limit"] = float64(r.Range(2, 3))
		ids = append(ids, "j4")
	}
	n := r.Range(4, 16)
	sleep := func(lo, hi int) {
		// each operation gets its own sub-millisecond residue (2 us more than
		// the previous one): operations never coincide with each other's due times
		d := time.Duration(r.Range(lo, hi))*time.Millisecond + 2*time.Microsecond
		p.Ops = append(p.Ops, h.Op{K: "sleep", N: int64(d)})
	}
	sleep(1, 900)
	if r.P(1, 10) {
		// a full house: while a recurring job's slow callback runs, other jobs
		// take every place in the timeline; the recurring job still has its
		// next occurrence coming
		p.Cfg["limit"] = float64(2)
		p.Cfg["mode"] = "fullhouse"
		p.Ops = append(p.Ops, h.Op{K: "add", Id: "j1", S: "* * * * * * *", N: int64(time.Duration(r.Range(1200, 1800)) * time.Millisecond)})
		p.Ops = append(p.Ops, h.Op{K: "add", Id: "j2", S: "+8500ms"})
		sleep(1100, 1900)
		p.Ops = append(p.Ops, h.Op{K: "add", Id: "j3", S: "+9500ms"})
		sleep(3000, 5000)
		if r.Bool() {
			p.Ops = append(p.Ops, h.Op{K: "rem", Id: "j2"})
			sleep(2000, 3000)
		}
		return p
	}
	for i := 0; i < n; i++ {
		switch r.Weighted([]int{8, 4, 1, 1, 1, 1, 1}) {
		case 0:
			var sched string
			switch r.Intn(3) {
			case 0:
				sched = fmt.Sprintf("+%dms", r.Range(200, 9000))
			case 1:
				sched = "!REL" + fmt.Sprint(r.Range(1, 12)) // absolute time = now + k s, resolved at execution
			default:
				sched = r.Pick(c16Exprs)
			}
			slow := int64(0)
			if r.P(1, 3) {
				slow = int64(time.Duration(r.Range(100, 3500)) * time.Millisecond)
			}
			p.Ops = append(p.Ops, h.Op{K: "add", Id: r.Pick(ids), S: sched, N: slow})
		case 1:
			p.Ops = append(p.Ops, h.Op{K: "rem", Id: r.Pick(ids)})
		case 2:
			p.Ops = append(p.Ops, h.Op{K: "suspend"})
		case 3:
			p.Ops = append(p.Ops, h.Op{K: "resume"})
		case 4:
			p.Ops = append(p.Ops, h.Op{K: "pause"})
		case 5:
			p.Ops = append(p.Ops, h.Op{K: "bsuspend"})
		case 6:
			p.Ops = append(p.Ops, h.Op{K: "bresume"})
		}
		sleep(50, 4000)
	}
	return p
}

type c16Reg struct {
	id       string
	gen      int
	sched    string // resolved schedule
	at       time.Time
	oneShot  bool
	due      time.Time // one-shot due time
	expr     *cronexpr.Expression
	slow     time.Duration
	removed  time.Time // zero: still registered at the end
	fires    []time.Time
	returned []time.Time
}

// occurrenceFor returns the occurrence a fire at t accounts for: the latest
// occurrence <= t of the expression, counting from the registration instant.
func (g *c16Reg) occurrencesBetween(from, to time.Time) []time.Time {
	var out []time.Time
	o := g.expr.Next(from)
	for !o.IsZero() && !o.After(to) {
		out = append(out, o)
		o = g.expr.Next(o)
		if len(out) > 5000 {
			break
		}
	}
	return out
}

func execC16A(t *testing.T, plan *h.Plan, trace bool) *h.Result {
	res := &h.Result{}
	var tr []string
	h.Arm(60*time.Second, fmt.Sprintf("C16 run_seed=%d", plan.RunSeed))
	defer h.Disarm()
	opIdx := 0
	fail := func(class, sig, f string, a ...interface{}) {
		if res.Viol == nil {
			res.Viol = &h.Violation{Property: "C16", Class: class, Sig: "memcron:" + sig, Detail: fmt.Sprintf(f, a...), OpIdx: opIdx}
		}
	}
	out := h.Bubble(t, func() {
		h.SeedProcess(plan.RunSeed)
		h.ResetParams()
		ctx := h.NewCtx(h.Prot{})
		b := cron.NewCronBroadcaster()
		cr, _ := cron.NewCron(b, time.Duration(plan.CfgI("pause_ns", int64(time.Second))), "sim", int(plan.CfgI("limit", 1000)))
		cr.Start(ctx)
		start := time.Now()
		var mu sync.Mutex
		var regs []*c16Reg
		cur := map[string]*c16Reg{}
		type span struct{ from, to time.Time }
		var suspended []span // intervals during which the loop was (possibly) not firing
		var susFrom time.Time
		var pauseBacklogEnd time.Time // commands queue behind a pause: they take effect when it ends
		pauseDur := time.Duration(plan.CfgI("pause_ns", int64(time.Second)))
		effective := func() time.Time {
			if pauseBacklogEnd.After(time.Now()) {
				return pauseBacklogEnd
			}
			return time.Now()
		}
		localSus, bcastSus := false, false
		markSus := func() {
			if (localSus || bcastSus) && susFrom.IsZero() {
				susFrom = time.Now()
			}
			if !localSus && !bcastSus && !susFrom.IsZero() {
				suspended = append(suspended, span{susFrom, effective().Add(time.Millisecond)})
				susFrom = time.Time{}
			}
		}
		checkTimeline := func() {
			cr.Lock()
			seen := map[string]int{}
			for _, j := range cr.Timeline {
				seen[j.Id]++
			}
			cr.Unlock()
			for id, n := range seen {
				if n > 1 {
					fail("duplicate-pending-entry", "timeline", "job %s has %d pending entries in the timeline", id, n)
				}
			}
		}
		for i, op := range plan.Ops {
			opIdx = i
			switch op.K {
			case "sleep":
				time.Sleep(time.Duration(op.N))
				continue
			case "add":
				sched := op.S
				now := time.Now()
				g := &c16Reg{id: op.Id, at: now, slow: time.Duration(op.N)}
				if strings.HasPrefix(sched, "!REL") {
					var k int
					fmt.Sscanf(sched, "!REL%d", &k)
					due := now.Add(time.Duration(k) * time.Second).Truncate(time.Second)
					sched = "!" + due.UTC().Format(time.RFC3339)
					g.oneShot, g.due = true, due
				} else if strings.HasPrefix(sched, "+") {
					d, _ := time.ParseDuration(sched[1:])
					g.oneShot, g.due = true, now.Add(d)
				} else {
					g.expr = cronexpr.MustParse(sched)
				}
				g.sched = sched
				mu.Lock()
				// how many jobs the timeline holds (or will hold again when a callback returns)
				live, replacing := 0, false
				for _, x := range regs {
					if x.removed.IsZero() && !(x.oneShot && len(x.fires) > 0) {
						live++
						if x.id == op.Id {
							replacing = true
						}
					}
				}
				prev := cur[op.Id]
				if old := cur[op.Id]; old != nil && old.removed.IsZero() {
					old.removed = now
				}
				g.gen = len(regs)
				regs = append(regs, g)
				cur[op.Id] = g
				mu.Unlock()
				gg := g
				err := cr.Add(ctx, op.Id, sched, func(time.Time) error {
					mu.Lock()
					gg.fires = append(gg.fires, time.Now())
					mu.Unlock()
					if gg.slow > 0 {
						time.Sleep(gg.slow)
					}
					mu.Lock()
					gg.returned = append(gg.returned, time.Now())
					mu.Unlock()
					return nil
				})
				others := live
				if replacing {
					others-- // the job this one replaces leaves first
				}
				_ = prev
				if err != nil && others >= int(plan.CfgI("limit", 1000)) {
					// refused for capacity: nothing is registered under this id any more
					// (a job it was to replace has been taken out before the check)
					mu.Lock()
					g.removed = now
					mu.Unlock()
					res.Count("adds_refused_for_capacity", 1)
				} else if err != nil {
					fail("add-refused", "add", "Cron.Add(%s, %q) returned %v (%d jobs held, limit %d)", op.Id, sched, err, live, plan.CfgI("limit", 1000))
				}
			case "rem":
				mu.Lock()
				if old := cur[op.Id]; old != nil && old.removed.IsZero() {
					old.removed = time.Now()
				}
				mu.Unlock()
				cr.Rem(ctx, op.Id)
			case "suspend":
				cr.Suspend(ctx)
				localSus = true
				markSus()
			case "resume":
				cr.Resume(ctx)
				localSus = false
				bcastSus = false // a local resume also lifts a broadcast suspension (one flag in the loop)
				markSus()
			case "pause":
				cr.Pause(ctx)
				from := time.Now()
				pauseBacklogEnd = effective().Add(pauseDur)
				suspended = append(suspended, span{from, pauseBacklogEnd.Add(time.Millisecond)})
			case "bsuspend":
				b.Suspend()
				bcastSus = true
				markSus()
			case "bresume":
				b.Resume()
				bcastSus = false
				localSus = false
				markSus()
			}
			switch op.K {
			case "suspend", "resume", "bsuspend", "bresume":
				// let the loop take this command before anything else happens: two
				// things ready at once in its select would be picked at random by
				// the Go runtime, which the plain build cannot pin
				synctestSettle()
			case "pause":
				time.Sleep(pauseDur + time.Millisecond)
				synctestSettle()
			}
			if trace {
				tr = append(tr, fmt.Sprintf("[+%v] op %d: %s", time.Since(start), i, op.String()))
			}
			checkTimeline()
		}
		// faults stop: lift every suspension and let the service run
		opIdx = len(plan.Ops)
		b.Resume()
		cr.Resume(ctx)
		localSus, bcastSus = false, false
		markSus()
		quietFrom := time.Now()
		time.Sleep(90 * time.Second)
		end := time.Now()
		checkTimeline()
		mu.Lock()
		defer mu.Unlock()
		inSuspension := func(a, b2 time.Time) bool {
			for _, s := range suspended {
				if s.from.Before(b2) && a.Before(s.to.Add(time.Second)) {
					return true
				}
			}
			return false
		}
		for _, g := range regs {
			if trace {
				tr = append(tr, fmt.Sprintf("reg %s#%d %q at +%v removed=%v fires=%v", g.id, g.gen, g.sched, g.at.Sub(start), !g.removed.IsZero(), relTimes(g.fires, start)))
			}
			sort.Slice(g.fires, func(i, j int) bool { return g.fires[i].Before(g.fires[j]) })
			if g.oneShot {
				if len(g.fires) > 1 {
					fail("one-shot-fired-twice", "oneshot", "one-shot job %s (%s) fired %d times: %v", g.id, g.sched, len(g.fires), relTimes(g.fires, start))
				}
				for _, f := range g.fires {
					if f.Before(g.due) {
						fail("fired-early", "oneshot", "one-shot job %s due at +%v fired at +%v", g.id, g.due.Sub(start), f.Sub(start))
					}
					if !g.removed.IsZero() && g.removed.Before(g.due) {
						fail("fired-after-removal", "oneshot", "one-shot job %s was removed at +%v, before its due time +%v, yet fired at +%v", g.id, g.removed.Sub(start), g.due.Sub(start), f.Sub(start))
					}
				}
				// bounded liveness: still registered (or removed only after the quiet
				// period began ...) and due before the end of the quiet period
				stillThere := g.removed.IsZero() || g.removed.After(g.due.Add(5*time.Second))
				if len(g.fires) == 0 && stillThere && g.due.Before(end.Add(-10*time.Second)) && !inSuspension(g.due, g.due.Add(5*time.Second)) {
					_ = quietFrom
					fail("one-shot-never-fired", "oneshot", "one-shot job %s (%s) due at +%v never fired although the service ran unsuspended until +%v", g.id, g.sched, g.due.Sub(start), end.Sub(start))
				}
				continue
			}
			// recurring
			prev := g.at
			for k, f := range g.fires {
				occ := g.occurrencesBetween(prev, f)
				if len(occ) == 0 {
					fail("fired-without-occurrence", "recurring", "recurring job %s (%s) fired at +%v with no occurrence due since +%v (fired early or twice for one occurrence)", g.id, g.sched, f.Sub(start), prev.Sub(start))
					break
				}
				last := occ[len(occ)-1]
				if !g.removed.IsZero() && g.removed.Before(last) {
					fail("fired-after-removal", "recurring", "recurring job %s (%s) was removed at +%v yet fired at +%v for the occurrence due at +%v", g.id, g.sched, g.removed.Sub(start), f.Sub(start), last.Sub(start))
					break
				}
				// no skipped occurrence while callbacks are shorter than the period and nothing was suspended
				if len(occ) > 1 && k > 0 && !inSuspension(prev, f) {
					period := occ[1].Sub(occ[0])
					if g.slow < period-10*time.Millisecond && k-1 < len(g.returned) {
						fail("occurrence-skipped", "recurring", "recurring job %s (%s, callback %v) skipped %d occurrence(s) between its fires at +%v and +%v", g.id, g.sched, g.slow, len(occ)-1, prev.Sub(start), f.Sub(start))
						break
					}
				}
				prev = f
			}
			// bounded liveness: a recurring job that is still registered keeps
			// firing - several occurrences after its last callback returned, with
			// nothing suspended since, cannot all have gone by without a fire
			if res.Viol == nil && g.removed.IsZero() {
				t0 := g.at
				if len(g.fires) > 0 {
					t0 = g.fires[len(g.fires)-1].Add(g.slow)
				}
				if len(g.returned) < len(g.fires) {
					continue // its last callback has not returned yet
				}
				occ := g.occurrencesBetween(t0.Add(time.Second), end.Add(-2*time.Second))
				if len(occ) >= 2 && !inSuspension(t0.Add(-time.Second), end) {
					fail("recurring-stopped", "recurring", "recurring job %s (%s, callback %v), never removed, last fired at +%v and then let %d occurrences go by until +%v: %v", g.id, g.sched, g.slow, t0.Add(-g.slow).Sub(start), len(occ), end.Sub(start), relTimes(occ, start))
				}
			}
		}
		res.SimNanos = int64(time.Since(start))
		nf := 0
		for _, g := range regs {
			nf += len(g.fires)
			res.Nontrivial = append(res.Nontrivial, fmt.Sprintf("%s|%v|%d|%v", g.sched, g.slow, len(g.fires), !g.removed.IsZero()))
		}
		res.Count("job_fires", int64(nf))
		cr.Kill(ctx)
	})
	if res.Viol == nil {
		if out.Deadlock {
			res.Viol = &h.Violation{Property: "C16", Class: "deadlock", Sig: "memcron", OpIdx: opIdx, Detail: out.Msg}
		} else if out.Panic != nil {
			res.Viol = &h.Violation{Property: "C16", Class: "panic", Sig: "memcron", OpIdx: opIdx, Detail: fmt.Sprintf("%v\n%s", out.Panic, h.Trunc(out.Stack, 1500))}
		}
	}
	res.Trace = tr
	return res
}

func relTimes(ts []time.Time, start time.Time) []string {
	var out []string
	for _, t := range ts {
		out = append(out, "+"+t.Sub(start).String())
	}
	return out
}

var _ = core.NOTHING
