package worlds

import (
	"fmt"
	"sort"
	"testing"

	"verif/sim/h"
)

// C03 — condition queries follow and/or/not/pattern/code semantics.

func init() {
	h.Register(&h.World{Prop: "C03", Name: "queries", Gen: genC03, Exec: func(t *testing.T, p *h.Plan, tr bool) *h.Result {
		return execLocWorld(t, p, tr, lwProfile{Prop: "C03"})
	}})
}

type qgen struct {
	r     *h.Rng
	facts []map[string]interface{}
	bound []string // variables bound so far on this path (names without '?')
	nvar  int
}

func (g *qgen) pattern() map[string]interface{} {
	r := g.r
	var base map[string]interface{}
	if len(g.facts) > 0 && r.P(5, 6) {
		base = g.facts[r.Intn(len(g.facts))]
	} else {
		base = map[string]interface{}{"p": r.Pick([]string{"a", "b"})}
	}
	out := map[string]interface{}{}
	bkeys := make([]string, 0, len(base))
	for k := range base {
		bkeys = append(bkeys, k)
	}
	sort.Strings(bkeys)
	for _, k := range bkeys {
		v := base[k]
		if len(base) > 1 && r.P(1, 3) {
			continue
		}
		switch {
		case r.P(1, 3) && len(g.bound) > 0:
			out[k] = "?" + r.Pick(g.bound) // shared variable: join
		case r.P(1, 3):
			g.nvar++
			name := fmt.Sprintf("v%d", g.nvar)
			out[k] = "?" + name
			g.bound = append(g.bound, name)
		default:
			out[k] = v
		}
	}
	if len(out) == 0 && len(bkeys) > 0 {
		out[bkeys[0]] = base[bkeys[0]]
	}
	return map[string]interface{}{"pattern": out}
}

func (g *qgen) code() map[string]interface{} {
	r := g.r
	var term map[string]interface{}
	consts := []interface{}{true, false, nil, float64(0), float64(1), "", "s"}
	switch r.Weighted([]int{4, 3, 2, 2}) {
	case 0:
		term = map[string]interface{}{"t": "const", "v": consts[r.Intn(len(consts))]}
	case 1:
		if len(g.bound) > 0 {
			term = map[string]interface{}{"t": "eq", "var": r.Pick(g.bound), "v": r.Pick([]string{"a", "b", "x"})}
		} else {
			term = map[string]interface{}{"t": "const", "v": true}
		}
	case 2:
		if len(g.bound) > 0 {
			term = map[string]interface{}{"t": "var", "var": r.Pick(g.bound)}
		} else {
			term = map[string]interface{}{"t": "const", "v": float64(1)}
		}
	default:
		g.nvar++
		name := fmt.Sprintf("w%d", g.nvar)
		term = map[string]interface{}{"t": "obj", "k": name, "v": r.Pick([]string{"a", "b"})}
		g.bound = append(g.bound, name)
	}
	return map[string]interface{}{"code": h.CodeScript(term), "term": term}
}

func (g *qgen) tree(depth int) map[string]interface{} {
	r := g.r
	if depth <= 0 {
		if r.P(1, 4) {
			return g.code()
		}
		return g.pattern()
	}
	switch r.Weighted([]int{4, 2, 4, 3, 2, 1}) {
	case 0:
		return g.pattern()
	case 1:
		return g.code()
	case 2:
		n := r.Range(0, 3)
		xs := []interface{}{}
		for i := 0; i < n; i++ {
			xs = append(xs, g.tree(depth-1))
		}
		return map[string]interface{}{"and": xs}
	case 3:
		n := r.Range(0, 3)
		xs := []interface{}{}
		saved := append([]string{}, g.bound...)
		for i := 0; i < n; i++ {
			// variables bound inside one disjunct are not bound on every path
			g.bound = append([]string{}, saved...)
			xs = append(xs, g.tree(depth-1))
		}
		g.bound = saved
		q := map[string]interface{}{"or": xs}
		if r.Bool() {
			q["shortCircuit"] = r.Bool()
		}
		return q
	case 4:
		saved := append([]string{}, g.bound...)
		sub := g.tree(depth - 1)
		g.bound = saved // nothing bound under `not` escapes
		return map[string]interface{}{"not": sub}
	default:
		return map[string]interface{}{}
	}
}

func genC03(r *h.Rng, tier string, idx int) *h.Plan {
	p := &h.Plan{Cfg: map[string]interface{}{}}
	p.Cfg["state"] = r.Pick([]string{"indexed", "linear"})
	p.Cfg["storage"] = "mem"
	locs := []string{"L"}
	np := r.Weighted([]int{3, 2, 1})
	for i := 0; i < np; i++ {
		locs = append(locs, fmt.Sprintf("P%d", i))
	}
	p.Cfg["locs"] = toIface(locs)
	if np > 0 {
		p.Ops = append(p.Ops, h.Op{K: "setparents", Loc: "L", L: locs[1:]})
	}
	g := &qgen{r: r}
	ids := []string{"q1", "q2", "q3", "q4", "q5", "q6", "q7", "q8"}
	p.Cfg["ids"] = toIface(ids)
	nf := r.Range(0, 8)
	lookalike := r.P(1, 4)
	if lookalike {
		nf = r.Range(4, 8)
	}
	keys := []string{"p", "q", "r"}
	vals := []string{"a", "b", "x"}
	for i := 0; i < nf; i++ {
		f := map[string]interface{}{}
		for _, k := range keys {
			if r.P(2, 3) {
				if r.P(1, 8) {
					f[k] = map[string]interface{}{"in": r.Pick(vals)} // object value: a `var` code term can return it
				} else if lookalike {
					// values of different types that print alike: a variable bound to
					// one of them must keep its type when it is substituted
					f[k] = r.PickAny([]interface{}{float64(1), "1", true, "true", nil, "<nil>", false})
				} else {
					f[k] = r.Pick(vals)
				}
			}
		}
		if len(f) == 0 {
			f["p"] = "a"
		}
		loc := r.Pick(locs)
		if loc == "L" {
			g.facts = append(g.facts, f)
		} else if r.Bool() {
			g.facts = append(g.facts, f)
		}
		p.Ops = append(p.Ops, h.Op{K: "addfact", Loc: loc, Id: r.Pick(ids), J: f})
		if r.P(1, 8) {
			p.Ops = append(p.Ops, h.Op{K: "remfact", Loc: loc, Id: r.Pick(ids)})
		}
		if r.P(1, 12) {
			p.Ops = append(p.Ops, h.Op{K: "reload"})
		}
	}
	// hand-made shapes next to the generated trees: `not` behind an `or` whose
	// disjuncts bind different variables (the incoming bindings of the `not`
	// then have different variable sets, the first of them possibly none)
	pat := func(k, v string) map[string]interface{} {
		return map[string]interface{}{"pattern": map[string]interface{}{k: v}}
	}
	shapes := []map[string]interface{}{
		{"and": []interface{}{map[string]interface{}{"or": []interface{}{pat("p", "?x"), pat("q", "?y")}}, map[string]interface{}{"not": pat("r", "?y")}}},
		{"and": []interface{}{map[string]interface{}{"or": []interface{}{pat("p", "?x"), pat("q", "?y")}}, map[string]interface{}{"not": pat("r", "?x")}}},
		{"and": []interface{}{map[string]interface{}{"or": []interface{}{map[string]interface{}{}, pat("q", "?y")}}, map[string]interface{}{"not": pat("p", "?y")}}},
		{"and": []interface{}{map[string]interface{}{"or": []interface{}{pat("q", "?y"), pat("p", "?x"), pat("r", "?y")}}, map[string]interface{}{"not": map[string]interface{}{"and": []interface{}{pat("p", "?y")}}}}},
	}
	// ... and a `not` that stands before the conjunct that binds its variable
	// (left-to-right composition: the variable is free when the `not` is evaluated)
	shapes = append(shapes,
		map[string]interface{}{"and": []interface{}{map[string]interface{}{"not": pat("q", "?x")}, pat("p", "?x")}},
		map[string]interface{}{"and": []interface{}{pat("r", "?y"), map[string]interface{}{"not": pat("q", "?x")}, pat("p", "?x")}})
	if r.Bool() {
		p.Ops = append(p.Ops, h.Op{K: "querytree", Loc: "L", J: shapes[r.Intn(len(shapes))]})
	}
	nq := 10
	for i := 0; i < nq; i++ {
		g.bound = nil
		q := g.tree(r.Range(0, 4))
		p.Ops = append(p.Ops, h.Op{K: "querytree", Loc: "L", J: q})
		if r.P(1, 3) {
			p.Ops = append(p.Ops, h.Op{K: "condevent", Loc: "L", J: q, S: r.Pick(vals)})
		}
	}
	return p
}
