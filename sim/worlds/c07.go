package worlds

import (
	"fmt"
	"testing"
	"time"

	"verif/sim/h"
)

// C07 — expiry is absolute and expired items are never observable.

func init() {
	h.Register(&h.World{Prop: "C07", Name: "expiry", Gen: genC07, Exec: func(t *testing.T, p *h.Plan, tr bool) *h.Result {
		return execLocWorld(t, p, tr, lwProfile{Prop: "C07", Battery: true, Search: true, Dispatch: true, CheckStore: true})
	}})
}

// expiryFields encodes "expires at E" (unix seconds) given the plan-relative
// instant at which the write happens (offset from the epoch of the fake clock).
func expiryFields(r *h.Rng, at time.Duration, delta time.Duration) (map[string]interface{}, string) {
	now := h.Epoch.Add(at)
	e := now.Add(delta).Unix()
	switch r.Intn(4) {
	case 0:
		return map[string]interface{}{"expires": float64(e)}, "expires-number"
	case 1:
		// the same instant written in UTC or with a zone offset
		zone := time.UTC
		if r.Bool() {
			off := []int{2 * 3600, -5 * 3600, 5*3600 + 1800, -(9*3600 + 1800), 14 * 3600}[r.Intn(5)]
			zone = time.FixedZone("", off)
		}
		return map[string]interface{}{"expires": time.Unix(e, 0).In(zone).Format(time.RFC3339)}, "expires-rfc3339"
	case 2:
		return map[string]interface{}{"ttl": delta.String()}, "ttl-duration"
	default:
		return map[string]interface{}{"ttl": float64(int64(delta / time.Second))}, "ttl-number"
	}
}

func genC07(r *h.Rng, tier string, idx int) *h.Plan {
	p := &h.Plan{Cfg: map[string]interface{}{}}
	p.Cfg["state"] = r.Pick([]string{"indexed", "linear"})
	p.Cfg["storage"] = "mem"
	if r.P(1, 12) {
		p.Cfg["storage"] = "bolt"
	}
	p.Cfg["battery_order"] = r.Pick([]string{"get-search-dispatch", "dispatch-search-get", "search-dispatch-get", "dispatch-get-search"})
	ids := []string{"e1", "e2", "e3", "k1"}
	p.Cfg["ids"] = toIface(ids)
	p.Cfg["locs"] = toIface([]string{"L"})
	var at time.Duration // plan-relative fake time
	sleep := func(d time.Duration) {
		if d <= 0 {
			return
		}
		p.Ops = append(p.Ops, h.Op{K: "sleep", N: int64(d)})
		at += d
	}
	// start at a random sub-second offset so that writes and reads fall inside seconds
	sleep(time.Duration(r.Range(0, 999)) * time.Millisecond)
	deltas := []time.Duration{time.Second, 2 * time.Second, 3 * time.Second, 10 * time.Second, 90 * time.Second, time.Hour, 36 * time.Hour, 24 * 365 * 10 * time.Hour}
	var patterns, events []interface{}
	type pending struct{ e time.Duration }
	var exps []time.Duration
	n := r.Range(2, 5)
	for i := 0; i < n; i++ {
		id := ids[i%len(ids)]
		delta := deltas[r.Intn(len(deltas))]
		if r.P(1, 10) {
			delta = -time.Duration(r.Range(0, 5)) * time.Second // already expired: must be rejected
		}
		fields, _ := expiryFields(r, at, delta)
		if id == "k1" || r.P(1, 6) {
			fields = map[string]interface{}{} // control: never expires
			switch r.Intn(4) {
			case 0, 1:
				// the documented spelling of "no expiration" (what a stored
				// non-expiring rule serialises to)
				fields = map[string]interface{}{"expires": float64(0)}
			case 2:
				// "for ever" as a very long ttl in seconds, or as a duration: an expiry
				// instant centuries away, not one that has wrapped around
				fields = map[string]interface{}{"ttl": r.PickAny([]interface{}{9999999999.0, 1e10, 2e10, 3e10, "2000000h"})}
			}
		} else if delta > 0 {
			exps = append(exps, (at + delta).Truncate(time.Second))
		}
		// the same content written again under the same id, with another expiry or
		// with none: the last write decides (the old instant stays an observation point)
		var again map[string]interface{}
		if delta > 0 && len(fields) > 0 && r.P(1, 5) {
			again = map[string]interface{}{}
			if r.Bool() {
				d2 := deltas[r.Intn(len(deltas))]
				again, _ = expiryFields(r, at, d2)
				exps = append(exps, (at + d2).Truncate(time.Second))
			}
		}
		if r.Bool() {
			f := map[string]interface{}{"kind": "thing", "n": fmt.Sprintf("v%d", i)}
			for k, v := range fields {
				f[k] = v
			}
			p.Ops = append(p.Ops, h.Op{K: "addfact", Loc: "L", Id: id, J: f})
			if again != nil {
				f2 := map[string]interface{}{"kind": "thing", "n": fmt.Sprintf("v%d", i)}
				for k, v := range again {
					f2[k] = v
				}
				p.Ops = append(p.Ops, h.Op{K: "addfact", Loc: "L", Id: id, J: f2})
			}
		} else {
			mk := func(fs map[string]interface{}) map[string]interface{} {
				rule := map[string]interface{}{"when": map[string]interface{}{"pattern": map[string]interface{}{"ev": fmt.Sprintf("v%d", i)}}, "action": map[string]interface{}{"code": "1"}}
				for k, v := range fs {
					rule[k] = v
				}
				return rule
			}
			p.Ops = append(p.Ops, h.Op{K: "addrule", Loc: "L", Id: id, J: mk(fields)})
			if again != nil {
				p.Ops = append(p.Ops, h.Op{K: "addrule", Loc: "L", Id: id, J: mk(again)})
			}
			events = append(events, map[string]interface{}{"ev": fmt.Sprintf("v%d", i)})
		}
		if r.P(1, 3) {
			sleep(time.Duration(r.Range(100, 1500)) * time.Millisecond)
		}
	}
	patterns = append(patterns, map[string]interface{}{"kind": "thing", "n": "?n"}, map[string]interface{}{"rule": "?r"})
	p.Cfg["patterns"] = patterns
	p.Cfg["events"] = events
	// an observation: any of the operations that can reveal an item
	observe := func() {
		switch r.Weighted([]int{4, 3, 2, 1, 1}) {
		case 0:
			p.Ops = append(p.Ops, h.Op{K: "getfact", Loc: "L", Id: r.Pick(ids)})
		case 1:
			if len(events) > 0 {
				p.Ops = append(p.Ops, h.Op{K: "event", Loc: "L", J: events[r.Intn(len(events))]})
			} else {
				p.Ops = append(p.Ops, h.Op{K: "getfact", Loc: "L", Id: r.Pick(ids)})
			}
		case 2:
			p.Ops = append(p.Ops, h.Op{K: "search", Loc: "L", J: map[string]interface{}{"kind": "thing", "n": "?n"}})
		case 3:
			p.Ops = append(p.Ops, h.Op{K: "listrules", Loc: "L"})
		case 4:
			if len(events) > 0 {
				p.Ops = append(p.Ops, h.Op{K: "searchrules", Loc: "L", J: events[r.Intn(len(events))]})
			} else {
				p.Ops = append(p.Ops, h.Op{K: "listrules", Loc: "L"})
			}
		}
	}
	// observation schedule around each expiry instant
	steps := r.Range(3, 10)
	for i := 0; i < steps; i++ {
		switch r.Weighted([]int{6, 2, 2, 1}) {
		case 0:
			if len(exps) > 0 {
				e := exps[r.Intn(len(exps))]
				var target time.Duration
				switch r.Intn(5) {
				case 0:
					target = e - time.Second
				case 1:
					target = e - time.Duration(r.Range(1, 999))*time.Millisecond
				case 2:
					target = e
				case 3:
					target = e + time.Duration(r.Range(1, 999))*time.Millisecond
				default:
					target = e + time.Second
				}
				if target > at {
					sleep(target - at)
				}
			}
			observe()
		case 1:
			p.Ops = append(p.Ops, h.Op{K: "reload", B: false})
		case 2:
			sleep(time.Duration(r.Range(1, 3000)) * time.Millisecond)
			observe()
		case 3:
			sleep(time.Duration(r.Range(1, 400)) * 24 * time.Hour)
			observe()
		}
	}
	return p
}
