package worlds

import (
	"fmt"
	"sort"
	"sync"
	"testing"
	"time"

	"github.com/Comcast/rulio/core"
	"github.com/Comcast/rulio/sys"

	"verif/sim/h"
	"verif/sim/hs"
)

// C17, world "overlap" — "the cache never serves state that misses an
// acknowledged write", with requests that overlap in (simulated) time: a
// request that loaded the location can still be working - a rule action that
// sleeps, then writes - when the cache entry it came from runs out and other
// requests arrive.  Each client starts its request at its own offset on the
// fake clock; writes use ids of their own, so their order does not matter.
// Judged after every request has returned: each acknowledged write is
// visible to a new request at once, and still after the entry has run out
// again and the location has been loaded from storage.

func init() {
	h.Register(&h.World{Prop: "C17", Name: "overlap", Share: 2, Gen: genC17Overlap, Exec: execC17Overlap})
}

func genC17Overlap(r *h.Rng, tier string, idx int) *h.Plan {
	p := &h.Plan{Cfg: map[string]interface{}{}}
	p.Cfg["state"] = r.Pick([]string{"indexed", "linear"})
	p.Cfg["ttl_ms"] = r.PickAny([]interface{}{float64(-1), float64(0), float64(1), float64(200), float64(500), float64(2000)}) // -1 forever, 0 never
	n := r.Range(2, 6)
	at := int64(0)
	for i := 0; i < n; i++ {
		// distinct start instants (steps of 50 ms + a unique remainder), so that the order of arrival is the plan's
		at += int64(r.Range(0, 12))*50 + int64(i+1)
		op := h.Op{Loc: "L", C: i, N: at}
		switch r.Weighted([]int{5, 3, 2, 2}) {
		case 0:
			// an event whose rule works for a while (sleeps on the fake clock) and then writes
			op.K = "event"
			op.J = map[string]interface{}{"ev": "slow", "ms": float64(r.PickAny([]interface{}{0.0, 100.0, 300.0, 700.0, 1000.0, 2500.0}).(float64)), "tag": fmt.Sprintf("m%d", i)}
		case 1:
			op.K = "addfact"
			op.Id = fmt.Sprintf("w%d", i)
			op.J = map[string]interface{}{"by": fmt.Sprintf("c%d", i)}
		case 2:
			op.K = "search"
			op.J = map[string]interface{}{"by": "?who"}
			if r.Bool() {
				// asked at the child K, which sees L through its parent list
				op.Loc = "K"
				op.B = true
			}
		case 3:
			op.K = "getfact"
			op.Id = r.Pick([]string{"seed", "nope"}) // ("nope" does not exist: the request fails, its hold on the location ends all the same - once)
		}
		p.Ops = append(p.Ops, op)
	}
	return p
}

func execC17Overlap(t *testing.T, plan *h.Plan, trace bool) *h.Result {
	res := &h.Result{}
	var tr []string
	h.Arm(60*time.Second, fmt.Sprintf("C17 overlap run_seed=%d", plan.RunSeed))
	defer h.Disarm()
	state := plan.CfgS("state", "indexed")
	ttlMs := plan.CfgI("ttl_ms", 0)
	ttl := time.Duration(ttlMs) * time.Millisecond
	name := fmt.Sprintf("ttl=%dms", ttlMs)
	switch ttlMs {
	case -1:
		ttl, name = sys.Forever, "ttl=forever"
	case 0:
		ttl, name = sys.Never, "ttl=never"
	}
	opIdx := 0
	fail := func(class, sig, f string, a ...interface{}) {
		if res.Viol == nil {
			res.Viol = &h.Violation{Property: "C17", Class: class, Sig: state + ":overlap:" + sig, Detail: fmt.Sprintf(f, a...), OpIdx: opIdx}
		}
	}
	out := h.Bubble(t, func() {
		h.SeedProcess(plan.RunSeed)
		h.ResetParams()
		mem, _ := core.NewMemStorage(nil)
		store := h.NewSimStorage(mem)
		e, err := hs.NewSvcEngine(hs.SvcConfig{State: state, TTL: ttl}, store, hs.NewSimCron(true))
		if err != nil {
			panic(err)
		}
		do := func(r hs.Req) string { return e.DoSys(h.NewCtx(h.Prot{}), r) }
		if x := do(hs.Req{Op: "addfact", Loc: "L", Id: "seed", J: map[string]interface{}{"seed": "here"}}); x == "ERR" {
			panic("seed fact refused")
		}
		rule := map[string]interface{}{
			"when": map[string]interface{}{"pattern": map[string]interface{}{"ev": "slow", "ms": "?ms", "tag": "?tag"}},
			"action": map[string]interface{}{"code": "Env.sleep(ms * 1000000); Env.AddFact('made-' + tag, {by: tag}); 'done'"},
		}
		if x := do(hs.Req{Op: "addrule", Loc: "L", Id: "slowrule", J: rule}); x == "ERR" {
			panic("slow rule refused")
		}
		if x := do(hs.Req{Op: "setparents", Loc: "K", L: []string{"L"}}); x == "ERR" {
			panic("setparents refused")
		}
		start := time.Now()
		results := make([]string, len(plan.Ops))
		var wg sync.WaitGroup
		for i, op := range plan.Ops {
			i, op := i, op
			wg.Add(1)
			go func() {
				defer wg.Done()
				time.Sleep(time.Until(start.Add(time.Duration(op.N) * time.Millisecond)))
				results[i] = do(opToReq(op))
			}()
		}
		wg.Wait()
		// what the acknowledged writes left behind
		want := map[string]string{}
		for i, op := range plan.Ops {
			if trace {
				tr = append(tr, fmt.Sprintf("c%d at +%dms %s -> %s", op.C, op.N, op.String(), h.Trunc(results[i], 200)))
			}
			if results[i] == "ERR" && !(op.K == "getfact" && op.Id == "nope") {
				opIdx = i
				fail("request-failed", op.K, "%s: request %s failed although nothing makes it fail", name, op.String())
				return
			}
			switch op.K {
			case "addfact":
				want[op.Id] = h.CanonSet(op.J)
			case "event":
				tag, _ := op.Map()["tag"].(string)
				want["made-"+tag] = h.CanonSet(map[string]interface{}{"by": tag})
			}
		}
		ids := make([]string, 0, len(want))
		for id := range want {
			ids = append(ids, id)
		}
		sort.Strings(ids)
		opIdx = len(plan.Ops)
		check := func(when string) {
			for _, id := range ids {
				got := do(hs.Req{Op: "getfact", Loc: "L", Id: id})
				if got != want[id] {
					fail("acknowledged-write-missed", when, "%s, %s: GetFact(L/%s) = %s; the write was acknowledged (%s).  Requests: %s", name, when, id, got, want[id], c17Timeline(plan))
					return
				}
			}
			srs := do(hs.Req{Op: "search", Loc: "L", J: map[string]interface{}{"by": "?who"}})
			for _, id := range ids {
				if !containsKey(srs, id) {
					fail("acknowledged-write-missed", when+":search", "%s, %s: a search does not find %s, whose write was acknowledged: %s.  Requests: %s", name, when, id, h.Trunc(srs, 300), c17Timeline(plan))
					return
				}
			}
			// ... and the child sees it through its parent
			srs = do(hs.Req{Op: "search", Loc: "K", B: true, J: map[string]interface{}{"by": "?who"}})
			for _, id := range ids {
				if !containsKey(srs, id) {
					fail("acknowledged-write-missed", when+":inherited", "%s, %s: an inherited search at the child K does not find L/%s, whose write was acknowledged: %s.  Requests: %s", name, when, id, h.Trunc(srs, 300), c17Timeline(plan))
					return
				}
			}
		}
		check("right after the last request returned")
		if res.Viol == nil {
			time.Sleep(5 * time.Second)
			check("after the cache entry has run out")
		}
		res.Nontrivial = append(res.Nontrivial, fmt.Sprintf("overlap|%s|%s", name, c17Timeline(plan)))
	})
	if res.Viol == nil {
		if out.Deadlock {
			res.Viol = &h.Violation{Property: "C17", Class: "deadlock", Sig: state + ":overlap:bubble", OpIdx: opIdx, Detail: out.Msg}
		} else if out.Panic != nil {
			res.Viol = &h.Violation{Property: "C17", Class: "harness-panic", Sig: fmt.Sprint(out.Panic), OpIdx: opIdx, Detail: h.Trunc(out.Stack, 1500)}
		}
	}
	res.Trace = tr
	return res
}

func containsKey(mapKeyList, id string) bool {
	for _, sep := range []string{"{", ";"} {
		if len(mapKeyList) > 0 && (stringsIndex(mapKeyList, sep+id+"=") >= 0) {
			return true
		}
	}
	return false
}

func stringsIndex(s, sub string) int {
	for i := 0; i+len(sub) <= len(s); i++ {
		if s[i:i+len(sub)] == sub {
			return i
		}
	}
	return -1
}

func c17Timeline(plan *h.Plan) string {
	s := ""
	for _, op := range plan.Ops {
		s += fmt.Sprintf("[+%dms c%d %s] ", op.N, op.C, op.String())
	}
	return s
}
