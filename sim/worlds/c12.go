//go:build simrt

package worlds

import (
	"encoding/json"
	"fmt"
	"sort"
	"strings"
	"testing"
	"time"

	"github.com/anishathalye/porcupine"

	"github.com/Comcast/rulio/core"
	"github.com/Comcast/rulio/zzverif/simrt"

	"verif/sim/h"
)

// C12 — concurrent requests to one location are atomic.  2-8 simulated
// clients issue operations on shared ids of one location; the simulator
// decides every interleaving at lock and storage yield points; the recorded
// history (stamped with the simulator's event sequence numbers) must be
// linearizable with respect to the reference model, final memory and storage
// included.

func init() {
	h.Register(&h.World{Prop: "C12", Name: "onelocation", Gen: genC12, Exec: execC12})
}

func genC12(r *h.Rng, tier string, idx int) *h.Plan {
	p := &h.Plan{Cfg: map[string]interface{}{}}
	p.Cfg["state"] = r.Pick([]string{"indexed", "linear"})
	nc := r.Range(2, 5)
	if r.P(1, 6) {
		nc = r.Range(6, 8)
	}
	p.Cfg["clients"] = nc
	p.Cfg["pct_depth"] = r.Range(0, 4)
	p.Tape.Seed = r.U64()
	p.Tape.MapOrder = r.Pick([]string{"sorted", "reversed", "shuffled"})
	p.Cfg["expired"] = r.P(1, 45) // (costs a real second or two per run)
	ids := []string{"s1", "s2", "s3"}
	rids := []string{"q1", "q2"}
	weights := []int{6, 3, 4, 3, 3, 1, 2, 3}
	if r.P(1, 4) {
		// rule churn: every client works on the same one or two rules
		// (add, remove, enable, disable, dispatch), where the compound
		// location operations meet
		weights = []int{1, 0, 0, 0, 4, 3, 5, 4}
		if r.Bool() {
			rids = []string{"q1"}
		}
		p.Cfg["mode"] = "rulechurn"
	} else if r.P(1, 4) {
		// fact churn: every client rewrites the same one or two facts with tags
		// from the small domain and searches by tag, where an overwrite's index
		// update meets another overwrite of the same id
		weights = []int{7, 1, 1, 4, 0, 0, 0, 0}
		ids = []string{"s1"}
		if r.Bool() {
			ids = []string{"s1", "s2"}
		}
		p.Cfg["mode"] = "factchurn"
	}
	if b, _ := p.Cfg["expired"].(bool); b && p.Cfg["mode"] == nil {
		// expired items lie around unobserved: mostly readers, which come across
		// them and queue their purge, next to a few writers
		p.Cfg["mode"] = "expired"
		// (the writers write to the expired ids too: a fresh item under an id
		// whose expiry a reader has just noted is a new item)
		ids = []string{"x1", "x2", "s1"}
		weights = []int{4, 1, 4, 6, 1, 0, 1, 3}
		p.Cfg["pct_depth"] = r.Range(1, 4)
	}
	uniq := 0
	total := 0
	lastBody := map[string]map[string]interface{}{}
	if p.Cfg["mode"] == nil && r.P(1, 4) {
		// snapshot runs: the location starts with its three facts in place; the
		// clients search (several candidates) and remove / add (several writes
		// can land while one search is under way): a search result must be the
		// matching set of one moment
		p.Cfg["mode"] = "snapshot"
		weights = []int{3, 4, 1, 5, 0, 0, 0, 0}
		for _, id := range ids {
			uniq++
			p.Ops = append(p.Ops, h.Op{K: "addfact", Loc: "L", Id: id, C: -1, J: map[string]interface{}{"v": fmt.Sprintf("u%d", uniq), "tag": "a"}})
			lastBody[id] = map[string]interface{}{"v": fmt.Sprintf("u%d", uniq), "tag": "a"}
		}
	}
	if p.Cfg["mode"] == nil && r.P(1, 6) {
		// re-assertion runs: few requests, so that the handful of pre-emptions
		// falls inside them - one client writes again exactly what the location
		// holds (a fact, or a rule's disabled flag), another changes the same id
		p.Cfg["mode"] = "reassert"
		p.Cfg["clients"] = 3
		p.Cfg["pct_depth"] = r.Range(1, 3)
		if r.Bool() {
			body := map[string]interface{}{"v": "u1", "tag": "a"}
			p.Ops = append(p.Ops, h.Op{K: "addfact", Loc: "L", Id: "s1", C: -1, J: h.CloneMap(body)})
			p.Ops = append(p.Ops, h.Op{K: "addfact", Loc: "L", Id: "s1", C: 0, J: h.CloneMap(body)})
			if r.Bool() {
				p.Ops = append(p.Ops, h.Op{K: "remfact", Loc: "L", Id: "s1", C: 1})
			} else {
				p.Ops = append(p.Ops, h.Op{K: "addfact", Loc: "L", Id: "s1", C: 1, J: map[string]interface{}{"v": "u2", "tag": "b"}})
			}
			p.Ops = append(p.Ops, h.Op{K: r.Pick([]string{"getfact", "remfact"}), Loc: "L", Id: "s1", C: 2})
		} else {
			p.Ops = append(p.Ops, h.Op{K: "addrule", Loc: "L", Id: "q1", C: -1, J: map[string]interface{}{
				"when": map[string]interface{}{"pattern": map[string]interface{}{"ev": "e"}}, "action": map[string]interface{}{"code": "'m1'"}}})
			p.Ops = append(p.Ops, h.Op{K: "enable", Loc: "L", Id: "q1", C: -1, B: false})
			p.Ops = append(p.Ops, h.Op{K: "enable", Loc: "L", Id: "q1", C: 0, B: false})
			p.Ops = append(p.Ops, h.Op{K: "enable", Loc: "L", Id: "q1", C: 1, B: true})
			p.Ops = append(p.Ops, h.Op{K: "event", Loc: "L", C: 2, J: map[string]interface{}{"ev": "e"}})
		}
		return p
	}
	for c := 0; c < nc; c++ {
		n := r.Range(1, 4)
		for k := 0; k < n && total < 14; k++ {
			total++
			uniq++
			var op h.Op
			switch r.Weighted(weights) {
			case 0:
				// "v" is unique (every read is attributable to one write); "tag" comes
				// from a small domain, so that a term leaves and re-enters the index
				op = h.Op{K: "addfact", Id: r.Pick(ids), J: map[string]interface{}{"v": fmt.Sprintf("u%d", uniq), "tag": r.Pick([]string{"a", "b"})}}
				if prev, ok := lastBody[op.Id]; ok && r.P(1, 4) {
					// the same content once more (a client that re-asserts a fact): a
					// write like any other, whatever it may look like to an optimiser
					op.J = h.CloneMap(prev)
				}
				lastBody[op.Id] = op.Map()
			case 1:
				op = h.Op{K: "remfact", Id: r.Pick(ids)}
			case 2:
				op = h.Op{K: "getfact", Id: r.Pick(ids)}
			case 3:
				op = h.Op{K: "search", J: map[string]interface{}{"v": "?x"}}
				if r.Bool() {
					op = h.Op{K: "search", J: map[string]interface{}{"tag": r.Pick([]string{"a", "b"})}}
				}
			case 4:
				op = h.Op{K: "addrule", Id: r.Pick(rids), J: map[string]interface{}{
					"when": map[string]interface{}{"pattern": map[string]interface{}{"ev": "e"}}, "action": map[string]interface{}{"code": fmt.Sprintf("'m%d'", uniq)}}}
				if r.P(1, 3) {
					op.J.(map[string]interface{})["ttl"] = "1h" // never reached; readers handle the rule's expiration all the same
				}
			case 5:
				op = h.Op{K: "remrule", Id: r.Pick(rids)}
			case 6:
				op = h.Op{K: "enable", Id: r.Pick(rids), B: r.Bool()}
			case 7:
				op = h.Op{K: "event", J: map[string]interface{}{"ev": "e"}}
			}
			op.C = c
			op.Loc = "L"
			p.Ops = append(p.Ops, op)
		}
	}
	return p
}

// ---- sequential specification -------------------------------------------------

type c12In struct {
	Op  h.Op
	Fin string // "mem" / "store" final reads
}

// c12State: id -> canonical body (facts, rules and property facts alike)
func c12Decode(s string) map[string]string {
	m := map[string]string{}
	if s != "" {
		json.Unmarshal([]byte(s), &m)
	}
	return m
}

func c12Encode(m map[string]string) string {
	bs, _ := json.Marshal(m)
	return string(bs)
}

func c12RuleWrapper(rule map[string]interface{}) string {
	return h.CanonSet(c12NoExpiry(map[string]interface{}{"rule": h.Clone(rule)}))
}

// c12NoExpiry drops the expiry of a far-future ttl (some rules carry one, so
// that readers go through the code that handles it) from what is compared.
func c12NoExpiry(body map[string]interface{}) map[string]interface{} {
	delete(body, "expires")
	delete(body, "ttl")
	if r, ok := body["rule"].(map[string]interface{}); ok {
		delete(r, "expires")
		delete(r, "ttl")
	}
	return body
}

// c12Apply is the sequential model of one operation: new state and the
// output the operation must produce.
func c12Apply(state string, op h.Op) (string, string) {
	m := c12Decode(state)
	switch op.K {
	case "addfact":
		m[op.Id] = h.CanonSet(op.J)
		return c12Encode(m), "ok"
	case "remfact", "remrule":
		delete(m, op.Id)
		if op.K == "remrule" {
			delete(m, h.PropId(op.Id, "disabled"))
		}
		// properties attached to the id go with it (deleteWith)
		for k, v := range m {
			var body map[string]interface{}
			json.Unmarshal([]byte(v), &body)
			if dw, ok := body["deleteWith"].([]interface{}); ok {
				for _, d := range dw {
					if d == op.Id {
						delete(m, k)
					}
				}
			}
		}
		return c12Encode(m), "ok"
	case "getfact":
		if v, ok := m[op.Id]; ok {
			return state, v
		}
		return state, "NOTFOUND"
	case "search":
		var out []string
		ids := make([]string, 0, len(m))
		for id := range m {
			ids = append(ids, id)
		}
		sort.Strings(ids)
		for _, id := range ids {
			var body map[string]interface{}
			json.Unmarshal([]byte(m[id]), &body)
			if bss, err := h.MatchBindings(op.Map(), body); err == nil && len(bss) > 0 {
				out = append(out, id+"="+h.MultisetKey(bss))
			}
		}
		return state, strings.Join(out, ";")
	case "addrule":
		m[op.Id] = c12RuleWrapper(op.Map())
		return c12Encode(m), "ok"
	case "enable":
		pid := h.PropId(op.Id, "disabled")
		if op.B {
			delete(m, pid)
		} else {
			m[pid] = h.CanonSet(map[string]interface{}{"id": op.Id, "!disabled": true, "deleteWith": []interface{}{op.Id}})
		}
		return c12Encode(m), "ok"
	case "event":
		var vals []string
		for id, v := range m {
			var body map[string]interface{}
			json.Unmarshal([]byte(v), &body)
			rule, ok := body["rule"].(map[string]interface{})
			if !ok {
				continue
			}
			if _, dis := m[h.PropId(id, "disabled")]; dis {
				continue
			}
			pat, ok := h.WhenPattern(rule)
			if !ok {
				continue
			}
			if bss, err := h.MatchBindings(pat, op.Map()); err == nil && len(bss) > 0 {
				act, _ := rule["action"].(map[string]interface{})
				code, _ := act["code"].(string)
				vals = append(vals, h.Canon(strings.Trim(code, "'")))
			}
		}
		return state, h.MultisetKey(vals)
	case "finalget":
		v, ok := m[op.Id]
		if !ok {
			v = "NOTFOUND"
		}
		return state, v + " | " + v // memory | storage
	}
	return state, "?"
}

var c12Model = porcupine.Model{
	Init: func() interface{} { return "" },
	Step: func(state, input, output interface{}) (bool, interface{}) {
		ns, want := c12Apply(state.(string), input.(h.Op))
		return want == output.(string), ns
	},
	Equal: func(a, b interface{}) bool { return a.(string) == b.(string) },
	DescribeOperation: func(input, output interface{}) string {
		return input.(h.Op).String() + " -> " + output.(string)
	},
}


// ---- split specification (classifies one known finding) ------------------------
//
// Location.ProcessEvent is not one atomic step in the code: FindRules.Do reads
// the matching rules in one lock section (state.FindCachedRules) and then, per
// rule, reads the rule's "disabled" property in another (Location.RuleEnabled);
// Location.RemRule removes the rule (with its deleteWith dependents) and then
// looks for, and removes, a "disabled" property in two more.  A history that
// the atomic specification rejects is re-checked against a specification in
// which exactly these operations are sequences of atomic state steps taken
// anywhere inside the operation's window.  If that explains it, the violation
// is classified by the call site (and compared with the known-findings file
// like any other); if not, it stays "not-linearizable".

type c12Sub struct {
	Op    h.Op
	Ev    int64  // call stamp of the parent operation
	Phase string // evD | evP | evF | rrA | rrB
	Rid   string
}

type c12Prog struct {
	Snap map[string]string `json:"snap,omitempty"` // rule id -> action value seen at dispatch
	Chk  map[string]bool   `json:"chk,omitempty"`  // rule id -> enabled when checked
	A    bool              `json:"a,omitempty"`
}

var c12RuleIds = []string{"q1", "q2"}

func c12SplitStep(state string, in c12Sub) (bool, string, string) {
	m := c12Decode(state)
	key := fmt.Sprintf("~%d", in.Ev)
	var pr c12Prog
	have := false
	if s, ok := m[key]; ok {
		json.Unmarshal([]byte(s), &pr)
		have = true
	}
	if pr.Snap == nil {
		pr.Snap = map[string]string{}
	}
	if pr.Chk == nil {
		pr.Chk = map[string]bool{}
	}
	put := func() string {
		bs, _ := json.Marshal(pr)
		m[key] = string(bs)
		return c12Encode(m)
	}
	switch in.Phase {
	case "evD":
		if have {
			return false, state, ""
		}
		pr.Snap = map[string]string{}
		pr.Chk = map[string]bool{}
		for id, v := range m {
			if strings.HasPrefix(id, "~") {
				continue
			}
			var body map[string]interface{}
			json.Unmarshal([]byte(v), &body)
			rule, ok := body["rule"].(map[string]interface{})
			if !ok {
				continue
			}
			pat, ok := h.WhenPattern(rule)
			if !ok {
				continue
			}
			if bss, err := h.MatchBindings(pat, in.Op.Map()); err == nil && len(bss) > 0 {
				act, _ := rule["action"].(map[string]interface{})
				code, _ := act["code"].(string)
				pr.Snap[id] = h.Canon(strings.Trim(code, "'"))
			}
		}
		return true, put(), ""
	case "evP":
		if !have {
			return false, state, ""
		}
		if _, done := pr.Chk[in.Rid]; done {
			return false, state, ""
		}
		_, dis := m[h.PropId(in.Rid, "disabled")]
		pr.Chk[in.Rid] = !dis
		return true, put(), ""
	case "evF":
		if !have || len(pr.Chk) != len(c12RuleIds) {
			return false, state, ""
		}
		var vals []string
		for id, v := range pr.Snap {
			if pr.Chk[id] {
				vals = append(vals, v)
			}
		}
		delete(m, key)
		return true, c12Encode(m), h.MultisetKey(vals)
	case "rrA":
		if have {
			return false, state, ""
		}
		op := in.Op
		op.K = "remfact" // the id and what names it in deleteWith; the property look-up is rrB
		ns, _ := c12Apply(c12Encode(m), op)
		m = c12Decode(ns)
		pr.A = true
		return true, put(), ""
	case "rrB":
		if !have || !pr.A {
			return false, state, ""
		}
		delete(m, h.PropId(in.Op.Id, "disabled"))
		delete(m, key)
		return true, c12Encode(m), "ok"
	}
	return false, state, ""
}

// c12SplitModel: plain operations step atomically (progress records, keyed
// "~<stamp>", are invisible to them); c12Sub inputs step as above.
var c12SplitModel = porcupine.Model{
	Init: func() interface{} { return "" },
	Step: func(state, input, output interface{}) (bool, interface{}) {
		if sub, ok := input.(c12Sub); ok {
			legal, ns, want := c12SplitStep(state.(string), sub)
			if !legal {
				return false, state
			}
			if sub.Phase == "evF" || sub.Phase == "rrB" {
				return want == output.(string), ns
			}
			return true, ns
		}
		m := c12Decode(state.(string))
		prog := map[string]string{}
		for k, v := range m {
			if strings.HasPrefix(k, "~") {
				prog[k] = v
				delete(m, k)
			}
		}
		ns, want := c12Apply(c12Encode(m), input.(h.Op))
		if want != output.(string) {
			return false, state
		}
		if len(prog) > 0 {
			m2 := c12Decode(ns)
			for k, v := range prog {
				m2[k] = v
			}
			ns = c12Encode(m2)
		}
		return true, ns
	},
	Equal: func(a, b interface{}) bool { return a.(string) == b.(string) },
}

// c12Split rewrites a history: every event (and, with remrule set, every
// RemRule) becomes its atomic steps, all sharing the operation's window.
func c12Split(ops []porcupine.Operation, remrule bool) []porcupine.Operation {
	var out []porcupine.Operation
	for _, o := range ops {
		op := o.Input.(h.Op)
		sub := func(phase, rid string, output string) {
			out = append(out, porcupine.Operation{ClientId: o.ClientId, Input: c12Sub{Op: op, Ev: o.Call, Phase: phase, Rid: rid}, Call: o.Call, Output: output, Return: o.Return})
		}
		switch {
		case op.K == "event":
			sub("evD", "", "")
			for _, rid := range c12RuleIds {
				sub("evP", rid, "")
			}
			sub("evF", "", o.Output.(string))
		case op.K == "remrule" && remrule:
			sub("rrA", "", "")
			sub("rrB", "", o.Output.(string))
		default:
			out = append(out, o)
		}
	}
	return out
}

// c12Do executes one client operation against the real location and
// normalises its result like the model does.
func c12Do(loc *core.Location, store *h.SimStorage, op h.Op) string {
	ctx := h.NewCtx(h.Prot{})
	switch op.K {
	case "addfact":
		if _, err := loc.AddFact(ctx, op.Id, core.Map(op.Map())); err != nil {
			return "ERR:" + err.Error()
		}
		return "ok"
	case "remfact":
		if _, err := loc.RemFact(ctx, op.Id); err != nil {
			return "ERR:" + err.Error()
		}
		return "ok"
	case "remrule":
		if _, err := loc.RemRule(ctx, op.Id); err != nil {
			return "ERR:" + err.Error()
		}
		return "ok"
	case "getfact":
		f, err := loc.GetFact(ctx, op.Id)
		if err != nil {
			return "NOTFOUND"
		}
		return h.CanonSet(c12NoExpiry(h.CloneMap(stripId(f))))
	case "search":
		srs, err := loc.SearchFacts(ctx, core.Map(op.Map()), false)
		if err != nil {
			return "ERR:" + err.Error()
		}
		obs := h.ObsSearch(srs)
		ids := make([]string, 0, len(obs))
		for id := range obs {
			ids = append(ids, id)
		}
		sort.Strings(ids)
		var out []string
		for _, id := range ids {
			out = append(out, id+"="+h.MultisetKey(obs[id]))
		}
		return strings.Join(out, ";")
	case "addrule":
		if _, err := loc.AddRule(ctx, op.Id, core.Map(op.Map())); err != nil {
			return "ERR:" + err.Error()
		}
		return "ok"
	case "enable":
		if err := loc.EnableRule(ctx, op.Id, op.B); err != nil {
			return "ERR:" + err.Error()
		}
		return "ok"
	case "event":
		fr, cond := loc.ProcessEvent(ctx, core.Map(op.Map()))
		if cond != nil {
			return "ERR:" + cond.Msg
		}
		return h.MultisetKey(h.ObsValues(fr))
	case "finalget":
		mem := "NOTFOUND"
		if f, err := loc.GetFact(ctx, op.Id); err == nil {
			mem = h.CanonSet(c12NoExpiry(h.CloneMap(stripId(f))))
		}
		st := "NOTFOUND"
		if js, ok := store.Dump("L")[op.Id]; ok {
			body := h.ParseMap(js)
			delete(body, "_id")
			st = h.CanonSet(c12NoExpiry(body))
		}
		return mem + " | " + st
	}
	return "?"
}

type c12Rec struct {
	client int
	op     h.Op
	call   int64
	ret    int64
	out    string
}

func execC12(t *testing.T, plan *h.Plan, trace bool) *h.Result {
	res := &h.Result{}
	state := plan.CfgS("state", "indexed")
	h.Arm(90*time.Second, fmt.Sprintf("C12 run_seed=%d", plan.RunSeed))
	defer h.Disarm()
	run := func(tape simrt.Tape, tr bool) (simrt.Report, []string, []c12Rec, *h.CoreEngine) {
		h.SeedProcess(plan.RunSeed)
		ps := h.ResetParams()
		ps.JavascriptTimeouts = false // the watchdog goroutine blocks in a select the scheduler does not own
		back := h.NewBackend("mem")
		eng := h.NewCoreEngine(state, back, h.QuietControl())
		loc := eng.Loc("L")
		if b, _ := plan.Cfg["expired"].(bool); b {
			// Items that have expired, unobserved, by the time the clients start
			// (this world has no fake clock: a real wait of at most a second):
			// every reader that comes across them has to leave them out - and
			// must not take them out of the shared state while it only reads.
			ctx := h.NewCtx(h.Prot{})
			loc.AddFact(ctx, "x1", core.Map{"v": "old1", "tag": "a", "ttl": "1s"})
			loc.AddFact(ctx, "x2", core.Map{"v": "old2", "tag": "b", "ttl": "1s"})
			loc.AddRule(ctx, "qx", core.Map{"when": map[string]interface{}{"pattern": map[string]interface{}{"ev": "e"}},
				"action": map[string]interface{}{"code": "'mx'"}, "ttl": "1s"})
			time.Sleep(time.Until(time.Now().Truncate(time.Second).Add(time.Second + 20*time.Millisecond)))
		}
		// prologue (client -1): requests made one after the other before the
		// clients start; part of the history, ordered before everything else
		var pro []c12Rec
		for _, op := range plan.Ops {
			if op.C == -1 {
				k := int64(len(pro))
				pro = append(pro, c12Rec{-1, op, -1000000 + 2*k, -1000000 + 2*k + 1, c12Do(loc, eng.Store, op)})
			}
		}
		eng.Store.Yield = simrt.Yield
		nc := int(plan.CfgI("clients", 2))
		recs := make([][]c12Rec, nc)
		clients := map[string]func(){}
		for c := 0; c < nc; c++ {
			c := c
			var mine []h.Op
			for _, op := range plan.Ops {
				if op.C == c {
					mine = append(mine, op)
				}
			}
			if len(mine) == 0 {
				continue
			}
			clients[fmt.Sprintf("c%d", c)] = func() {
				for _, op := range mine {
					call := simrt.Seq()
					out := c12Do(loc, eng.Store, op)
					ret := simrt.Seq()
					recs[c] = append(recs[c], c12Rec{c, op, call, ret, out})
				}
			}
		}
		rep, ev := simrt.Run(tape, tr, 400000, clients)
		all := append([]c12Rec{}, pro...)
		for _, rs := range recs {
			all = append(all, rs...)
		}
		return rep, ev, all, eng
	}
	tape := simTape(plan)
	explicit := plan.Tape.Preempt != nil
	depth := int(plan.CfgI("pct_depth", 0))
	if !explicit && depth > 0 {
		dry, _, _, _ := run(simrt.Tape{Seed: plan.Tape.Seed, Preempt: map[int64]bool{}, MapOrder: plan.Tape.MapOrder}, false)
		pts := choosePreemptions(plan.Tape.Seed, depth, dry.Yields)
		tape.Preempt = map[int64]bool{}
		for _, s := range pts {
			tape.Preempt[s] = true
		}
		plan = plan.Clone()
		plan.Tape.Preempt = pts
		if plan.Tape.Preempt == nil {
			plan.Tape.Preempt = []int64{}
		}
	}
	rep, ev, recs, eng := run(tape, trace)
	res.Count("yield_points", rep.Yields)
	res.Count("task_switches", rep.Switches)
	res.Count("preemptions", rep.Preempted)
	res.Count("tasks", int64(rep.Tasks))
	if trace {
		res.Trace = ev
		if len(res.Trace) > 400 {
			res.Trace = res.Trace[len(res.Trace)-400:]
		}
	}
	viol := func(class, sig, f string, a ...interface{}) {
		res.Viol = &h.Violation{Property: "C12", Class: class, Sig: state + ":" + sig, Detail: fmt.Sprintf(f, a...), OpIdx: len(recs)}
		res.PlanOverride = plan
	}
	switch {
	case rep.Panic != nil:
		viol("panic", "task:"+panicSite(rep.PanicStack), "task %s panicked: %v\n%s", rep.PanicTask, rep.Panic, h.Trunc(rep.PanicStack, 1500))
		return res
	case rep.Deadlock:
		viol("deadlock", "scheduler", "no task can run: %s", rep.WaitGraph)
		return res
	case rep.Livelock:
		viol("livelock", "scheduler", "step budget exhausted after %d yields", rep.Yields)
		return res
	}
	// close the history with final reads of memory and storage (sequentially, after everything)
	var ops []porcupine.Operation
	maxSeq := int64(0)
	for _, r := range recs {
		if r.ret > maxSeq {
			maxSeq = r.ret
		}
		if strings.HasPrefix(r.out, "ERR:") {
			viol("operation-failed", r.op.K, "client %d: %s returned %s although nothing makes it fail", r.client, r.op.String(), r.out)
			return res
		}
		ops = append(ops, porcupine.Operation{ClientId: r.client, Input: r.op, Call: r.call, Output: r.out, Return: r.ret})
	}
	loc := eng.Loc("L")
	fin := 100
	for _, id := range []string{"s1", "s2", "s3", "x1", "x2", "q1", "q2", "!q1.disabled", "!q2.disabled"} {
		maxSeq += 2
		op := h.Op{K: "finalget", Id: id}
		ops = append(ops, porcupine.Operation{ClientId: fin, Input: op, Call: maxSeq, Output: c12Do(loc, eng.Store, op), Return: maxSeq + 1})
	}
	// ... and by final searches by constant: the index must agree with the items
	for _, tag := range []string{"a", "b"} {
		maxSeq += 2
		op := h.Op{K: "search", Loc: "L", J: map[string]interface{}{"tag": tag}}
		ops = append(ops, porcupine.Operation{ClientId: fin, Input: op, Call: maxSeq, Output: c12Do(loc, eng.Store, op), Return: maxSeq + 1})
	}
	// ... and by a final event: what fires (the rule cache) must agree with the rules
	{
		maxSeq += 2
		op := h.Op{K: "event", Loc: "L", J: map[string]interface{}{"ev": "e"}}
		ops = append(ops, porcupine.Operation{ClientId: fin, Input: op, Call: maxSeq, Output: c12Do(loc, eng.Store, op), Return: maxSeq + 1})
	}
	r := porcupine.CheckOperationsTimeout(c12Model, ops, 20*time.Second)
	switch r {
	case porcupine.Illegal:
		var lines []string
		sort.Slice(ops, func(i, j int) bool { return ops[i].Call < ops[j].Call })
		for _, o := range ops {
			lines = append(lines, fmt.Sprintf("[%d..%d] c%d %s -> %s", o.Call, o.Return, o.ClientId, o.Input.(h.Op).String(), h.Trunc(o.Output.(string), 160)))
		}
		kinds := map[string]bool{}
		for _, o := range ops {
			kinds[o.Input.(h.Op).K] = true
		}
		var ks []string
		for k := range kinds {
			if k != "finalget" {
				ks = append(ks, k)
			}
		}
		sort.Strings(ks)
		class, sig := "not-linearizable", strings.Join(ks, "+")
		what := "no sequential order of these requests explains the observed results and the final memory/storage state"
		if porcupine.CheckOperationsTimeout(c12SplitModel, c12Split(ops, false), 20*time.Second) == porcupine.Ok {
			class, sig = "event-not-atomic", "FindRules.Do:rules-then-RuleEnabled"
			what = "no sequential order of these requests explains the results; an order exists only if ProcessEvent is taken as separate steps (read the matching rules, then read each rule's disabled property)"
		} else if porcupine.CheckOperationsTimeout(c12SplitModel, c12Split(ops, true), 20*time.Second) == porcupine.Ok {
			class, sig = "remrule-not-atomic", "Location.RemRule:Rem-then-RemProp"
			what = "no sequential order of these requests explains the results; an order exists only if RemRule is taken as separate steps (remove the rule, then look for and remove its disabled property)"
		}
		viol(class, sig, what+":\n%s", strings.Join(lines, "\n"))
	case porcupine.Unknown:
		res.Count("linearizability_inconclusive", 1)
	default:
		res.Count("histories_linearizable", 1)
	}
	res.Nontrivial = append(res.Nontrivial, fmt.Sprintf("%d|%s|%v", rep.Switches, h.Sha(h.Canon(plan.Ops)), plan.Tape.Preempt))
	return res
}
