package worlds

import (
	"encoding/json"
	"fmt"
	"net/url"
	"sort"
	"strings"
	"testing"
	"time"

	"gopkg.in/yaml.v2"

	"github.com/Comcast/rulio/core"
	"github.com/Comcast/rulio/sys"

	"verif/sim/h"
	"verif/sim/hs"
)

// C18 — the service layer is a faithful, encoding-independent rendering of
// the API.  One logical request history is rendered in every supported
// encoding, each rendering against its own engine, while a twin System
// receives the direct calls.

var c18Renderings = []string{"query", "form", "json", "envelope", "yaml", "yamlenvelope", "batch", "map"}

func init() {
	h.Register(&h.World{Prop: "C18", Name: "encodings", Gen: genC18, Exec: execC18})
}

var c18Strings = []string{"plain", "with space", "a&b=c", "quote\"d", "per%cent", "unié中", "plus+sign", "semi;colon", "que?stion", "slash/es", "#hash", "new\nline", "{brace}", "[brack]", "colon: space", "- dash", "true", "123", "null", "~", "'single'", "tab\there"}

// c18IllValues: wrong-typed values by name (what a typed encoding can carry).
var c18IllValues = map[string]interface{}{
	"number":      float64(5),
	"bool":        true,
	"map":         map[string]interface{}{"not": "expected"},
	"emptylist":   []interface{}{},
	"numlist":     []interface{}{float64(1), float64(2)},
	"strlist":     []interface{}{"true"},
	"strlist2":    []interface{}{"tr", "ue"},
	"maplist":     []interface{}{map[string]interface{}{"a": "b"}},
	"word":        "maybe",
	"emptystring": "",
	"null":        nil,
}

// c18IllCells enumerates (operation, parameter, wrong value) triples.  A
// string parameter legitimately arrives as a list of strings (query strings
// and forms deliver lists) and as any scalar that has a string form, so only
// maps and lists of non-strings are ill-typed for it; a map parameter is
// ill-typed as a number, a boolean or a list; a boolean parameter is
// ill-typed as anything that is not a boolean or the strings true/false.
func c18IllCells() [][3]string {
	var out [][3]string
	add := func(ops []string, param string, vals []string) {
		for _, o := range ops {
			for _, v := range vals {
				out = append(out, [3]string{o, param, v})
			}
		}
	}
	add([]string{"search", "listrules"}, "inherited", []string{"number", "map", "emptylist", "numlist", "strlist", "strlist2", "maplist"}) // (a string that is not true/false reads as false: a value, not a type, question - not demanded)
	add([]string{"getfact", "remfact", "remrule", "enable"}, "id", []string{"map", "numlist", "maplist"})
	add([]string{"addfact"}, "fact", []string{"number", "bool", "numlist", "emptylist"})
	add([]string{"addrule"}, "rule", []string{"number", "bool", "numlist", "emptylist"})
	add([]string{"search"}, "pattern", []string{"number", "bool", "numlist", "emptylist"})
	add([]string{"event"}, "event", []string{"number", "bool", "numlist", "emptylist"})
	add([]string{"query"}, "query", []string{"number", "bool", "numlist", "emptylist"})
	add([]string{"addfact", "getfact", "search", "event", "listrules"}, "location", []string{"map", "numlist", "maplist"})
	return out
}

func genC18(r *h.Rng, tier string, idx int) *h.Plan {
	p := &h.Plan{Cfg: map[string]interface{}{}}
	p.Cfg["state"] = r.Pick([]string{"indexed", "linear"})
	p.Cfg["prefix"] = r.Pick([]string{"/api", "", "/v1.0/api", "/1.2", "/v2"})
	p.Cfg["chunk"] = r.Pick([]string{"0", "1", "7", "64"})
	locs := []string{"svc1", "svc two"}
	ids := []string{"i1", "i2", "id three"}
	n := r.Range(4, 14)
	str := func() string { return r.Pick(c18Strings) }
	for i := 0; i < n; i++ {
		loc := r.Pick(locs)
		switch r.Weighted([]int{8, 3, 2, 4, 3, 1, 2, 1, 3, 2, 1, 3, 4}) {
		case 0:
			f := map[string]interface{}{"k": str(), "n": float64(r.Range(0, 3))}
			if r.P(1, 3) {
				// numbers at the edges of what an encoding may carry as an integer
				f["num"] = r.PickAny([]interface{}{1e19, -1e30, 12345678901234567890.0, 9223372036854775808.0, 1.5, 1000.0, 0.1, -0.0, 4294967296.0, 1e-7})
			}
			if r.P(1, 3) {
				f["nest"] = map[string]interface{}{"in": str(), "list": []interface{}{str(), "b"}}
			}
			if r.P(1, 4) {
				// containers in containers: a map inside a list inside a list, a list in a map in a list
				f["grid"] = []interface{}{[]interface{}{map[string]interface{}{"cell": str()}}, []interface{}{}}
				f["rows"] = []interface{}{map[string]interface{}{"cols": []interface{}{map[string]interface{}{"v": str()}}}}
			}
			id := r.Pick(ids)
			if r.P(1, 6) {
				id = ""
			}
			p.Ops = append(p.Ops, h.Op{K: "addfact", Loc: loc, Id: id, J: f})
		case 1:
			p.Ops = append(p.Ops, h.Op{K: "getfact", Loc: loc, Id: r.Pick(ids)})
		case 2:
			p.Ops = append(p.Ops, h.Op{K: "remfact", Loc: loc, Id: r.Pick(ids)})
		case 3:
			pat := map[string]interface{}{"k": "?v"}
			if r.Bool() {
				pat = map[string]interface{}{"k": str()}
			}
			p.Ops = append(p.Ops, h.Op{K: "search", Loc: loc, J: pat, B: r.Bool()})
		case 4:
			rule := map[string]interface{}{"when": map[string]interface{}{"pattern": map[string]interface{}{"ev": r.Pick([]string{"go", "?e"})}},
				"action": map[string]interface{}{"code": fmt.Sprintf("'fired %d'", i)}}
			p.Ops = append(p.Ops, h.Op{K: "addrule", Loc: loc, Id: "r1", J: rule})
		case 5:
			p.Ops = append(p.Ops, h.Op{K: "remrule", Loc: loc, Id: "r1"})
		case 6:
			p.Ops = append(p.Ops, h.Op{K: "listrules", Loc: loc, B: r.Bool()})
		case 7:
			p.Ops = append(p.Ops, h.Op{K: "enable", Loc: loc, Id: "r1", B: r.Bool()})
		case 8:
			p.Ops = append(p.Ops, h.Op{K: "event", Loc: loc, J: map[string]interface{}{"ev": r.Pick([]string{"go", str()})}})
		case 9:
			p.Ops = append(p.Ops, h.Op{K: "query", Loc: loc, J: map[string]interface{}{"pattern": map[string]interface{}{"k": "?v"}}})
		case 10:
			p.Ops = append(p.Ops, h.Op{K: "clear", Loc: loc})
		case 11:
			// error cases: missing parameter, ill-typed parameter, unknown URI, failing operation
			p.Ops = append(p.Ops, h.Op{K: "bad", Loc: loc, S: r.Pick([]string{"missing-location", "missing-fact", "fact-not-json", "fact-is-string", "unknown-uri", "get-unknown-id", "rule-without-action", "pattern-missing", "id-is-map", "take-pattern-missing", "replace-fact-missing", "replace-pattern-missing",
				"fact-is-null", "event-is-null", "query-is-null", "pattern-is-null", "rule-is-null", "fact-is-number", "fact-is-list", "fact-is-true", "fact-is-padded-null"})})
		case 12:
			// ill-typed parameter, systematically: (operation, parameter, wrong value)
			cells := c18IllCells()
			c := cells[r.Intn(len(cells))]
			p.Ops = append(p.Ops, h.Op{K: "bad", Loc: loc, S: "ill", RK: c[0], WK: c[1], Sub: []h.Op{{K: "v", S: c[2]}}})
		}
	}
	return p
}

// c18Request builds the generic request map (uri + parameters) of an operation.
func c18Request(op h.Op) (uri string, params map[string]interface{}) {
	params = map[string]interface{}{"location": op.Loc}
	switch op.K {
	case "addfact":
		uri = "/loc/facts/add"
		params["fact"] = op.Map()
		if op.Id != "" {
			params["id"] = op.Id
		}
	case "getfact":
		uri = "/loc/facts/get"
		params["id"] = op.Id
	case "remfact":
		uri = "/loc/facts/rem"
		params["id"] = op.Id
	case "search":
		uri = "/loc/facts/search"
		params["pattern"] = op.Map()
		if op.B {
			params["inherited"] = "true"
		}
	case "addrule":
		uri = "/loc/rules/add"
		params["rule"] = op.Map()
		params["id"] = op.Id
	case "remrule":
		uri = "/loc/rules/rem"
		params["id"] = op.Id
	case "listrules":
		uri = "/loc/rules/list"
		if op.B {
			params["inherited"] = "true"
		}
	case "enable":
		uri = "/loc/rules/enable"
		if !op.B {
			uri = "/loc/rules/disable"
		}
		params["id"] = op.Id
	case "event":
		uri = "/loc/events/ingest"
		params["event"] = op.Map()
	case "query":
		uri = "/loc/facts/query"
		params["query"] = op.Map()
	case "clear":
		uri = "/loc/admin/clear"
	case "take":
		uri = "/loc/facts/take"
		params["pattern"] = op.Map()
	case "replace":
		// pattern of what is taken in Sub[0], the fact that replaces it in J
		uri = "/loc/facts/replace"
		params["fact"] = op.Map()
		if len(op.Sub) > 0 {
			params["pattern"] = op.Sub[0].Map()
		}
		if op.Id != "" {
			params["id"] = op.Id
		}
	case "bad":
		switch op.S {
		case "ill":
			// a valid request of the base operation with one parameter replaced
			base := h.Op{K: op.RK, Loc: op.Loc, Id: "i1", B: true}
			switch op.RK {
			case "addfact":
				base.J = map[string]interface{}{"k": "v"}
			case "addrule":
				base.Id = "r1"
				base.J = map[string]interface{}{"when": map[string]interface{}{"pattern": map[string]interface{}{"ev": "go"}}, "action": map[string]interface{}{"code": "1"}}
			case "remrule", "enable":
				base.Id = "r1"
			case "search":
				base.J = map[string]interface{}{"k": "?v"}
			case "event":
				base.J = map[string]interface{}{"ev": "go"}
			case "query":
				base.J = map[string]interface{}{"pattern": map[string]interface{}{"k": "?v"}}
			}
			uri, params = c18Request(base)
			if len(op.Sub) > 0 {
				params[op.WK] = h.Clone(c18IllValues[op.Sub[0].S])
			}
		case "missing-location":
			uri = "/loc/facts/add"
			params = map[string]interface{}{"fact": map[string]interface{}{"k": "v"}}
		case "missing-fact":
			uri = "/loc/facts/add"
		case "fact-not-json":
			uri = "/loc/facts/add"
			params["fact"] = "RAW:{not json"
		case "fact-is-null":
			uri = "/loc/facts/add"
			params["fact"] = "RAW:null"
		case "fact-is-padded-null":
			uri = "/loc/facts/add"
			params["fact"] = "RAW: null "
		case "fact-is-number":
			uri = "/loc/facts/add"
			params["fact"] = "RAW:5"
		case "fact-is-list":
			uri = "/loc/facts/add"
			params["fact"] = "RAW:[1]"
		case "fact-is-true":
			uri = "/loc/facts/add"
			params["fact"] = "RAW:true"
		case "event-is-null":
			uri = "/loc/events/ingest"
			params["event"] = "RAW:null"
		case "query-is-null":
			uri = "/loc/facts/query"
			params["query"] = "RAW:null"
		case "pattern-is-null":
			uri = "/loc/facts/search"
			params["pattern"] = "RAW:null"
		case "rule-is-null":
			uri = "/loc/rules/add"
			params["id"] = "r1"
			params["rule"] = "RAW:null"
		case "fact-is-string":
			uri = "/loc/facts/add"
			params["fact"] = "RAW:\"just a string\""
		case "unknown-uri":
			uri = "/loc/facts/frobnicate"
		case "get-unknown-id":
			uri = "/loc/facts/get"
			params["id"] = "no-such-id"
		case "rule-without-action":
			uri = "/loc/rules/add"
			params["rule"] = map[string]interface{}{"when": map[string]interface{}{"pattern": map[string]interface{}{"a": "b"}}}
		case "take-pattern-missing":
			uri = "/loc/facts/take"
		case "replace-fact-missing":
			uri = "/loc/facts/replace"
			params["pattern"] = map[string]interface{}{"k": "?v"}
		case "replace-pattern-missing":
			uri = "/loc/facts/replace"
			params["fact"] = map[string]interface{}{"k": "v"}
		case "pattern-missing":
			uri = "/loc/facts/search"
		case "id-is-map":
			uri = "/loc/facts/get"
			params["id"] = map[string]interface{}{"not": "a string"}
		}
	}
	return
}

type c18Outcome struct {
	Err     bool
	Payload string // canonical, comparable payload ("" when not compared)
	Raw     string
	Status  int
}

// payloadOf extracts the comparable part of a JSON response for an operation.
func c18Payload(op h.Op, body string) string {
	var x map[string]interface{}
	if json.Unmarshal([]byte(strings.TrimSpace(body)), &x) != nil {
		return "!notjson:" + h.Trunc(body, 120)
	}
	switch op.K {
	case "take":
		return c18Payload(h.Op{K: "search"}, body)
	case "replace":
		return c18Payload(h.Op{K: "addfact", Id: op.Id}, body)
	case "addfact":
		if op.Id == "" {
			if s, _ := x["id"].(string); s != "" {
				return "generated"
			}
			return "!noid"
		}
		return h.Canon(x["id"])
	case "addrule":
		return h.Canon(x["id"])
	case "getfact":
		return h.CanonSet(x["fact"])
	case "search":
		out := map[string][]string{}
		found, _ := x["Found"].([]interface{})
		for _, f := range found {
			fm, _ := f.(map[string]interface{})
			id, _ := fm["Id"].(string)
			bss, _ := fm["Bindingss"].([]interface{})
			for _, bs := range bss {
				out[id] = append(out[id], h.CanonSet(bs))
			}
			sort.Strings(out[id])
		}
		return h.MapKeyList(out)
	case "listrules":
		ids, _ := x["ids"].([]interface{})
		var ss []string
		for _, i := range ids {
			ss = append(ss, fmt.Sprint(i))
		}
		sort.Strings(ss)
		return fmt.Sprint(ss)
	case "event":
		res, _ := x["result"].(map[string]interface{})
		vals, _ := res["values"].([]interface{})
		var vs []string
		for _, v := range vals {
			vs = append(vs, h.Canon(v))
		}
		return h.MultisetKey(vs)
	case "query":
		bss, _ := x["Bss"].([]interface{})
		var vs []string
		for _, b := range bss {
			vs = append(vs, h.CanonSet(b))
		}
		return h.MultisetKey(vs)
	}
	return ""
}

func c18Render(rendering, prefix string, uri string, params map[string]interface{}) (method, target, ctype, body string, ok bool) {
	full := prefix + uri
	if prefix == "/1.2" || prefix == "/v2" {
		full = prefix + uri // DWIM adds /api
	}
	flat := func() url.Values {
		v := url.Values{}
		for k, x := range params {
			switch y := x.(type) {
			case string:
				if strings.HasPrefix(y, "RAW:") {
					v.Set(k, y[4:])
				} else {
					v.Set(k, y)
				}
			default:
				v.Set(k, h.Canon(y))
			}
		}
		return v
	}
	typed := func() map[string]interface{} {
		m := map[string]interface{}{}
		for k, x := range params {
			if s, isS := x.(string); isS && strings.HasPrefix(s, "RAW:") {
				var y interface{}
				if json.Unmarshal([]byte(s[4:]), &y) == nil {
					m[k] = y
				} else {
					m[k] = s[4:]
				}
				continue
			}
			m[k] = x
		}
		return m
	}
	switch rendering {
	case "query":
		return "GET", full + "?" + flat().Encode(), "", "", true
	case "form":
		return "POST", full, "application/x-www-form-urlencoded", flat().Encode(), true
	case "json":
		return "POST", full, "application/json", h.Canon(typed()), true
	case "envelope":
		m := typed()
		m["uri"] = full
		return "POST", prefixOnly(prefix) + "/json", "application/json", h.Canon(m), true
	case "yaml":
		bs, err := yaml.Marshal(typed())
		if err != nil {
			return "", "", "", "", false
		}
		return "POST", full, "application/x-yaml", string(bs), true
	case "yamlenvelope":
		m := typed()
		m["uri"] = full
		bs, err := yaml.Marshal(m)
		if err != nil {
			return "", "", "", "", false
		}
		return "POST", prefixOnly(prefix) + "/yaml", "application/x-yaml", string(bs), true
	case "batch":
		m := typed()
		m["uri"] = full
		return "POST", prefixOnly(prefix) + "/sys/util/batch", "application/json", h.Canon(map[string]interface{}{"requests": []interface{}{m}}), true
	}
	return "", "", "", "", false
}

func c18Cell(op h.Op) string {
	if op.S != "ill" || len(op.Sub) == 0 {
		return ""
	}
	return ":" + op.RK + "." + op.WK + "=" + op.Sub[0].S
}

func prefixOnly(prefix string) string {
	if prefix == "/api" || prefix == "/v1.0/api" {
		return prefix
	}
	return prefix
}

func execC18(t *testing.T, plan *h.Plan, trace bool) *h.Result {
	res := &h.Result{}
	var tr []string
	h.Arm(60*time.Second, fmt.Sprintf("C18 run_seed=%d", plan.RunSeed))
	defer h.Disarm()
	opIdx := 0
	state := plan.CfgS("state", "indexed")
	prefix := plan.CfgS("prefix", "/api")
	chunk := 0
	fmt.Sscanf(plan.CfgS("chunk", "0"), "%d", &chunk)
	fail := func(class, sig, f string, a ...interface{}) {
		if res.Viol == nil {
			res.Viol = &h.Violation{Property: "C18", Class: class, Sig: sig, Detail: fmt.Sprintf(f, a...), OpIdx: opIdx}
		}
	}
	out := h.Bubble(t, func() {
		h.SeedProcess(plan.RunSeed)
		h.ResetParams()
		mk := func() *hs.SvcEngine {
			mem, _ := core.NewMemStorage(nil)
			e, err := hs.NewSvcEngine(hs.SvcConfig{State: state, TTL: sys.Forever}, h.NewSimStorage(mem), hs.NewSimCron(true))
			if err != nil {
				panic(err)
			}
			return e
		}
		direct := mk()
		engines := map[string]*hs.SvcEngine{}
		for _, rnd := range c18Renderings {
			engines[rnd] = mk()
		}
		for i, op := range plan.Ops {
			opIdx = i
			if res.Viol != nil {
				break
			}
			uri, params := c18Request(op)
			// the direct System call (where one exists for the operation)
			var want c18Outcome
			haveDirect := op.K != "bad"
			if haveDirect {
				r0 := direct.DoSys(h.NewCtx(h.Prot{}), opToReq(op))
				want.Err = r0 == "ERR"
				switch op.K {
				case "addfact":
					want.Payload = h.Canon(op.Id)
					if op.Id == "" {
						want.Payload = "generated"
					}
				case "addrule":
					want.Payload = h.Canon(op.Id)
				case "getfact", "search", "listrules", "query":
					want.Payload = r0
				case "event":
					if j := strings.Index(r0, " values="); j >= 0 {
						want.Payload = r0[j+8:]
					}
				}
			} else {
				want.Err = true // every "bad" request must be refused
			}
			outcomes := map[string]c18Outcome{}
			for _, rnd := range c18Renderings {
				e := engines[rnd]
				var oc c18Outcome
				if op.K == "bad" && op.S == "ill" && (rnd == "query" || rnd == "form") {
					continue // these encodings carry strings only
				}
				if rnd == "map" {
					// the generic request map, as any transport hands it to the service
					m := map[string]interface{}{"uri": prefix + uri}
					skip := false
					for k, x := range params {
						if s, isS := x.(string); isS && strings.HasPrefix(s, "RAW:") {
							var y interface{}
							if json.Unmarshal([]byte(s[4:]), &y) != nil {
								skip = true // not expressible as a typed map
							}
							m[k] = y
							continue
						}
						m[k] = h.Clone(x)
					}
					if skip {
						continue
					}
					var body string
					var err error
					func() {
						defer func() {
							if x := recover(); x != nil {
								err = fmt.Errorf("panic: %v", x)
								fail("panic", "map:"+op.K, "ProcessRequest panicked on %s: %v", h.Canon(m), x)
							}
						}()
						body, err = e.Request(h.NewCtx(h.Prot{}), m)
					}()
					oc = c18Outcome{Err: err != nil, Raw: body, Status: 200}
					if err != nil {
						oc.Status = 400
					}
				} else {
					method, target, ctype, body, ok := c18Render(rnd, prefix, uri, params)
					if !ok {
						continue
					}
					var status int
					var rbody string
					func() {
						defer func() {
							if x := recover(); x != nil {
								status = 500
								fail("panic", rnd+":"+op.K, "ServeHTTP panicked on %s %s body %q: %v", method, target, h.Trunc(body, 300), x)
							}
						}()
						status, rbody = e.ServeHTTP(method, target, ctype, body, chunk)
					}()
					oc = c18Outcome{Err: status != 200, Raw: rbody, Status: status}
					if rnd == "batch" && status == 200 {
						var arr []interface{}
						if json.Unmarshal([]byte(strings.TrimSpace(rbody)), &arr) == nil && len(arr) == 1 {
							if em, isM := arr[0].(map[string]interface{}); isM {
								if _, has := em["error"]; has && len(em) == 1 {
									oc.Err = true
								}
							}
							bs, _ := json.Marshal(arr[0])
							oc.Raw = string(bs)
						} else {
							oc.Raw = rbody
							if op.K != "clear" && op.K != "remfact" && op.K != "remrule" && op.K != "enable" {
								oc.Err = true
							}
						}
					}
				}
				if !oc.Err {
					oc.Payload = c18Payload(op, oc.Raw)
				}
				outcomes[rnd] = oc
				if trace {
					tr = append(tr, fmt.Sprintf("op %d %s [%s] -> status %d err=%v payload=%s raw=%s", i, op.K+":"+op.S, rnd, oc.Status, oc.Err, h.Trunc(oc.Payload, 200), h.Trunc(strings.TrimSpace(oc.Raw), 160)))
				}
				// status: an error response is 400, never 200 / 500
				if oc.Err && rnd != "map" && rnd != "batch" && oc.Status != 400 {
					fail("error-status", rnd+":"+op.K, "%s rendering of failing %s answered HTTP %d (body %q)", rnd, op.K+":"+op.S, oc.Status, h.Trunc(oc.Raw, 200))
				}
				if oc.Err != want.Err {
					if want.Err {
						fail("error-reported-as-success", rnd+":"+op.K+":"+op.S+c18Cell(op), "%s rendering of %s (%s) succeeded with %q; it must be refused", rnd, op.K+":"+op.S, h.Canon(params), h.Trunc(oc.Raw, 200))
					} else {
						fail("encoding-changes-outcome", rnd+":"+op.K, "%s rendering of %s (%s) failed (HTTP %d, %q); the direct call succeeds", rnd, op.K, h.Canon(params), oc.Status, h.Trunc(oc.Raw, 200))
					}
					continue
				}
				if !oc.Err && want.Payload != "" && op.K == "search" {
					// generated ids differ from engine to engine
					if stripIds(oc.Payload) == stripIds(want.Payload) {
						continue
					}
				}
				if !oc.Err && want.Payload != "" && oc.Payload != want.Payload {
					fail("encoding-changes-result", rnd+":"+op.K, "%s rendering of %s (%s) returned %s; the direct call gives %s (raw %q)", rnd, op.K, h.Canon(params), oc.Payload, want.Payload, h.Trunc(oc.Raw, 300))
				}
			}
			res.Nontrivial = append(res.Nontrivial, op.K+"|"+op.S+"|"+fmt.Sprint(want.Err)+"|"+h.Sha(h.Canon(params)))
		}
		// same effect: every engine's facts and rules equal the twin's
		if res.Viol == nil {
			opIdx = len(plan.Ops)
			for _, loc := range []string{"svc1", "svc two"} {
				for _, probe := range []hs.Req{{Op: "search", Loc: loc, J: map[string]interface{}{"k": "?v"}}, {Op: "listrules", Loc: loc}} {
					w0 := direct.DoSys(h.NewCtx(h.Prot{}), probe)
					if strings.Contains(w0, "-") && probe.Op == "search" {
						// generated ids differ between engines: compare bindings only
					}
					for _, rnd := range c18Renderings {
						g := engines[rnd].DoSys(h.NewCtx(h.Prot{}), probe)
						if stripIds(g) != stripIds(w0) {
							fail("encoding-changes-effect", rnd+":state", "after the history, %s of %q on the %s engine gives %s; the twin driven directly gives %s", probe.Op, loc, rnd, h.Trunc(g, 300), h.Trunc(w0, 300))
						}
					}
				}
			}
		}
	})
	if res.Viol == nil && out.Panic != nil {
		res.Viol = &h.Violation{Property: "C18", Class: "harness-panic", Sig: fmt.Sprint(out.Panic), OpIdx: opIdx, Detail: h.Trunc(out.Stack, 1500)}
	}
	res.Trace = tr
	return res
}

// stripIds replaces generated (UUID-like) ids so that engines can be compared.
func stripIds(s string) string {
	parts := strings.Split(s, ";")
	var vals []string
	for _, p := range parts {
		p = strings.Trim(p, "{}")
		if i := strings.Index(p, "="); i >= 0 {
			id := p[:i]
			if len(id) == 36 && strings.Count(id, "-") == 4 {
				vals = append(vals, "GEN="+p[i+1:])
				continue
			}
		}
		vals = append(vals, p)
	}
	sort.Strings(vals)
	return strings.Join(vals, ";")
}
