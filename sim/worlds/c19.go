package worlds

import (
	"fmt"
	"testing"

	"verif/sim/h"
)

// C19 — access controls and enablement are enforced on every path.

// (prop-*: AddFact of a property fact - the parent set, a rule's disabled flag, the location's own
// enabled flag and write key are facts too, and writing them through the facts API is a write like any other)
var c19Mutating = []string{"addfact", "remfact", "addrule", "remrule", "enable", "setparents", "clear", "event-mutating",
	"prop-parents", "prop-disabled", "prop-enabled", "prop-writekey", "prop-custom", "event-trigger-oneshot"}
var c19Revealing = []string{"getfact", "search", "getrule", "searchrules", "listrules", "statesize", "query", "event", "event-trigger", "search-inherited", "searchrules-inherited", "listrules-inherited"}
// (parentread / parentdisabled: L itself is open, its parent P is protected: what L inherits is the parent's to guard)
var c19States = []string{"none", "write", "read", "both", "readonly", "disabled", "parentread", "parentdisabled"}
var c19Callers = []string{"nokey", "wrongkey", "rightkey"}

func init() {
	prof := lwProfile{Prop: "C19", Battery: true, Search: true, Dispatch: true, CheckStore: true, Lifecycle: true}
	h.Register(&h.World{Prop: "C19", Name: "histories", Share: 3, Gen: genC19, Exec: func(t *testing.T, p *h.Plan, tr bool) *h.Result {
		return execLocWorld(t, p, tr, prof)
	}})
	// the full operation x protection state x caller matrix, once per state implementation
	h.Register(&h.World{Prop: "C19", Name: "matrix", Gen: genC19Matrix,
		Enumerated: func(string) int { return c19MatrixCount },
		Runs:       map[string]int{"quick": c19MatrixCount, "thorough": c19MatrixCount},
		Exec: func(t *testing.T, p *h.Plan, tr bool) *h.Result {
			return execLocWorld(t, p, tr, prof)
		}})
}

var c19MatrixCount = (len(c19Mutating) + len(c19Revealing)) * len(c19States) * len(c19Callers) * 2

func c19Setup(p *h.Plan, state string) {
	// seed content: two facts, a plain rule, a rule whose action mutates
	p.Ops = append(p.Ops,
		h.Op{K: "addfact", Loc: "L", Id: "f1", J: map[string]interface{}{"secret": "one", "n": "x"}},
		h.Op{K: "addfact", Loc: "L", Id: "f2", J: map[string]interface{}{"secret": "two", "n": "y"}},
		h.Op{K: "addrule", Loc: "L", Id: "r1", J: map[string]interface{}{
			"when": map[string]interface{}{"pattern": map[string]interface{}{"ping": "?p"}}, "action": map[string]interface{}{"code": "'r1'"}}},
		h.Op{K: "addrule", Loc: "L", Id: "rs", J: map[string]interface{}{"schedule": "+1h", "action": map[string]interface{}{"code": "'rs'"}}},
		h.Op{K: "addrule", Loc: "L", Id: "rm", J: map[string]interface{}{
			"when": map[string]interface{}{"pattern": map[string]interface{}{"mutate": "?m"}},
			"action": map[string]interface{}{"code": ActionCode([]h.Op{
				{K: "addfact", Id: "byaction", J: map[string]interface{}{"made": "by action"}},
				{K: "remfact", Id: "f2"},
			}, "rm")}}},
	)
	switch state {
	case "write", "both":
		p.Ops = append(p.Ops, h.Op{K: "setprop", Loc: "L", Id: "", S: "writeKey", J: "wk"})
	}
	switch state {
	case "read", "both":
		p.Ops = append(p.Ops, h.Op{K: "setprop", Loc: "L", Id: "", S: "readKey", J: "rk"})
	}
	switch state {
	case "readonly":
		p.Ops = append(p.Ops, h.Op{K: "readonly", Loc: "L", B: true})
	case "disabled":
		p.Ops = append(p.Ops, h.Op{K: "setprop", Loc: "L", Id: "", S: "enabled", J: "no"})
	case "parentread", "parentdisabled":
		p.Ops = append(p.Ops,
			h.Op{K: "addfact", Loc: "P", Id: "pf", J: map[string]interface{}{"secret": "parent", "n": "p"}},
			h.Op{K: "addrule", Loc: "P", Id: "pr", J: map[string]interface{}{
				"when": map[string]interface{}{"pattern": map[string]interface{}{"ping": "?p"}}, "action": map[string]interface{}{"code": "'pr'"}}},
			h.Op{K: "setparents", Loc: "L", L: []string{"P"}})
		if state == "parentread" {
			p.Ops = append(p.Ops, h.Op{K: "setprop", Loc: "P", Id: "", S: "readKey", J: "rk"})
		} else {
			p.Ops = append(p.Ops, h.Op{K: "setprop", Loc: "P", Id: "", S: "enabled", J: "no"})
		}
	}
}

func c19Op(kind, caller string, i int) h.Op {
	var op h.Op
	switch kind {
	case "addfact":
		op = h.Op{K: "addfact", Id: "f3", J: map[string]interface{}{"secret": "three", "n": fmt.Sprintf("z%d", i)}}
	case "prop-parents":
		op = h.Op{K: "addfact", J: map[string]interface{}{"!parents": []interface{}{"P"}}}
	case "prop-disabled":
		op = h.Op{K: "addfact", J: map[string]interface{}{"id": "r1", "!disabled": true}}
	case "prop-enabled":
		op = h.Op{K: "addfact", J: map[string]interface{}{"!enabled": "yes"}}
	case "prop-writekey":
		op = h.Op{K: "addfact", J: map[string]interface{}{"!writeKey": "wk"}}
	case "prop-custom":
		op = h.Op{K: "addfact", J: map[string]interface{}{"id": "f1", "!colour": fmt.Sprintf("c%d", i)}}
	case "remfact":
		op = h.Op{K: "remfact", Id: "f1"}
	case "addrule":
		op = h.Op{K: "addrule", Id: "r2", J: map[string]interface{}{"when": map[string]interface{}{"pattern": map[string]interface{}{"pong": "?p"}}, "action": map[string]interface{}{"code": "'r2'"}}}
	case "remrule":
		op = h.Op{K: "remrule", Id: "r1"}
	case "enable":
		op = h.Op{K: "enable", Id: "r1", B: false}
	case "setparents":
		op = h.Op{K: "setparents", L: []string{"P"}}
	case "clear":
		op = h.Op{K: "clear"}
	case "event-mutating":
		op = h.Op{K: "event", J: map[string]interface{}{"mutate": "now"}}
	case "getfact":
		op = h.Op{K: "getfact", Id: "f1"}
	case "search":
		op = h.Op{K: "search", J: map[string]interface{}{"secret": "?s"}}
	case "getrule":
		op = h.Op{K: "getrule", Id: "r1"}
	case "searchrules":
		op = h.Op{K: "searchrules", J: map[string]interface{}{"ping": "a"}}
	case "listrules":
		op = h.Op{K: "listrules"}
	case "statesize":
		op = h.Op{K: "statesize"}
	case "query":
		op = h.Op{K: "query", J: map[string]interface{}{"secret": "?s"}}
	case "event":
		op = h.Op{K: "event", J: map[string]interface{}{"ping": "a"}}
	case "search-inherited":
		op = h.Op{K: "search", J: map[string]interface{}{"secret": "?s"}, B: true}
	case "searchrules-inherited":
		op = h.Op{K: "searchrules", J: map[string]interface{}{"ping": "a"}, B: true}
	case "listrules-inherited":
		op = h.Op{K: "listrules", B: true}
	case "event-trigger-oneshot":
		// the tick of a one-shot scheduled rule: after its run the rule is removed - a write
		op = h.Op{K: "event", J: map[string]interface{}{"trigger!": "rs"}}
	case "event-trigger":
		// an event that names the rule to run (the form a cron tick takes);
		// it also carries what the rule's `when` asks for
		op = h.Op{K: "event", J: map[string]interface{}{"trigger!": "r1", "ping": "a"}}
	}
	op.Loc = "L"
	switch caller {
	case "wrongkey":
		op.RK, op.WK = "nope", "nope"
	case "rightkey":
		op.RK, op.WK = "rk", "wk"
	}
	return op
}

func c19Base(state string) *h.Plan {
	p := &h.Plan{Cfg: map[string]interface{}{}}
	p.Cfg["state"] = state
	p.Cfg["storage"] = "mem"
	p.Cfg["locs"] = toIface([]string{"L", "P"})
	p.Cfg["ids"] = toIface([]string{"f1", "f2", "f3", "r1", "r2", "rm", "byaction", "pf", "pr", "!f1.colour", "rs"})
	p.Cfg["patterns"] = []interface{}{map[string]interface{}{"secret": "?s"}, map[string]interface{}{"rule": "?r"}, map[string]interface{}{"made": "?m"}}
	p.Cfg["events"] = []interface{}{map[string]interface{}{"ping": "a"}}
	return p
}

func genC19Matrix(r *h.Rng, tier string, idx int) *h.Plan {
	k := idx % c19MatrixCount
	state := []string{"indexed", "linear"}[k%2]
	k /= 2
	caller := c19Callers[k%len(c19Callers)]
	k /= len(c19Callers)
	prot := c19States[k%len(c19States)]
	k /= len(c19States)
	all := append(append([]string{}, c19Mutating...), c19Revealing...)
	kind := all[k%len(all)]
	p := c19Base(state)
	// (every other pass over the matrix keeps one caller context for the whole run)
	if (idx/c19MatrixCount)%2 == 1 || r.P(1, 2) {
		p.Cfg["shared_ctx"] = true
	}
	p.Cfg["cell"] = kind + "/" + prot + "/" + caller
	c19Setup(p, prot)
	p.Ops = append(p.Ops, c19Op(kind, caller, 0))
	return p
}

func genC19(r *h.Rng, tier string, idx int) *h.Plan {
	p := c19Base(r.Pick([]string{"indexed", "linear"}))
	if r.P(1, 3) {
		p.Cfg["shared_ctx"] = true
	}
	c19Setup(p, "none")
	all := append(append([]string{}, c19Mutating...), c19Revealing...)
	n := r.Range(6, 20)
	for i := 0; i < n; i++ {
		switch r.Weighted([]int{12, 1, 1, 1, 1, 1, 2}) {
		case 6:
			// a key set or changed through the facts API, as the property fact it is -
			// with an id of the caller's choosing, which a property fact does not keep
			// (the callers go on presenting "wk" / "rk": right only while that is the key)
			prop := r.Pick([]string{"!writeKey", "!writeKey", "!readKey"})
			val := r.Pick([]string{"wk", "wk2", "rk", "rk2"})
			op := h.Op{K: "addfact", Loc: "L", Id: r.Pick([]string{"lock", "", "key1"}), J: map[string]interface{}{prop: val}}
			switch r.Intn(3) {
			case 0:
				op.RK, op.WK = "rk", "wk"
			case 1:
				op.RK, op.WK = "rk2", "wk2"
			}
			p.Ops = append(p.Ops, op)
		case 0:
			p.Ops = append(p.Ops, c19Op(r.Pick(all), r.Pick(c19Callers), i))
		case 1:
			p.Ops = append(p.Ops, h.Op{K: "setprop", Loc: "L", Id: "", S: "writeKey", J: r.Pick([]string{"wk", "wk", ""})})
		case 2:
			p.Ops = append(p.Ops, h.Op{K: "setprop", Loc: "L", Id: "", S: "readKey", J: r.Pick([]string{"rk", "rk", ""})})
		case 3:
			p.Ops = append(p.Ops, h.Op{K: "readonly", Loc: "L", B: r.Bool()})
		case 4:
			p.Ops = append(p.Ops, h.Op{K: "setprop", Loc: "L", Id: "", S: "enabled", J: r.Pick([]string{"no", "yes"})})
		case 5:
			p.Ops = append(p.Ops, h.Op{K: "reload"})
		}
	}
	return p
}
