//go:build simrt

package worlds

import (
	"fmt"
	"sort"
	"strings"
	"testing"
	"time"

	"github.com/Comcast/rulio/core"
	"github.com/Comcast/rulio/cron"
	"github.com/Comcast/rulio/zzverif/simrt"

	"verif/sim/h"
	"verif/sim/hs"
)

// C04 — an event runs each action exactly once per rule and binding result.
// Rule actions are goroutines of the engine; here they are simulator tasks,
// so the tape decides their order and pre-empts them inside AddFact.

func init() {
	h.Register(&h.World{Prop: "C04", Name: "actions", Gen: genC04, Exec: execC04})
}

// c04Action kinds: ok (reports what it sees and records an execution fact),
// throw, nocompile.
func c04ActionCode(rule string, k int, kind string) string {
	switch kind {
	case "throw":
		return fmt.Sprintf("Env.AddFact('', {attempt: '%s/%d'}); throw new Error('boom %s/%d')", rule, k, rule, k)
	case "nocompile":
		return "var = ;"
	}
	if kind == "scribble" {
		// like ok, and it writes to its own variables afterwards: every execution
		// has its own `event` (and bindings), so nobody else may see this
		return fmt.Sprintf("Env.AddFact('', {exec: '%s/%d'}); var rep = {r: ruleId, a: %d, loc: location, ev: event, "+
			"x: (typeof x === 'undefined') ? '<unbound>' : x, n: (typeof n === 'undefined') ? '<unbound>' : n}; "+
			"event.scribble = '%s/%d'; x = 'scribbled'; n = 'scribbled'; rep", rule, k, k, rule, k)
	}
	return fmt.Sprintf("Env.AddFact('', {exec: '%s/%d'}); ({r: ruleId, a: %d, loc: location, ev: event, "+
		"x: (typeof x === 'undefined') ? '<unbound>' : x, n: (typeof n === 'undefined') ? '<unbound>' : n})", rule, k, k)
}

func genC04(r *h.Rng, tier string, idx int) *h.Plan {
	p := &h.Plan{Cfg: map[string]interface{}{}}
	p.Cfg["state"] = r.Pick([]string{"indexed", "linear"})
	p.Cfg["pct_depth"] = r.Range(0, 3)
	p.Tape.Seed = r.U64()
	p.Tape.MapOrder = r.Pick([]string{"sorted", "reversed", "shuffled"})
	kinds := []string{"red", "green", "blue"}
	nf := r.Range(0, 6)
	for i := 0; i < nf; i++ {
		p.Ops = append(p.Ops, h.Op{K: "addfact", Loc: "L", Id: fmt.Sprintf("f%d", i), J: map[string]interface{}{"kind": r.Pick(kinds), "n": float64(r.Range(1, 3))}})
	}
	nr := r.Range(0, 4)
	for i := 0; i < nr; i++ {
		id := fmt.Sprintf("r%d", i)
		var when map[string]interface{}
		switch r.Intn(3) {
		case 0:
			when = map[string]interface{}{"items": []interface{}{"?x"}} // one binding per element of the event's array
		case 1:
			when = map[string]interface{}{"go": "?x"}
		default:
			when = map[string]interface{}{"go": r.Pick(kinds)}
		}
		rule := map[string]interface{}{"when": map[string]interface{}{"pattern": when}}
		switch r.Intn(4) {
		case 0:
			rule["condition"] = map[string]interface{}{"pattern": map[string]interface{}{"kind": "?x", "n": "?n"}}
		case 1:
			rule["condition"] = map[string]interface{}{"pattern": map[string]interface{}{"kind": r.Pick(kinds), "n": "?n"}}
		case 2:
			rule["condition"] = map[string]interface{}{"and": []interface{}{map[string]interface{}{"pattern": map[string]interface{}{"kind": "?x", "n": "?n"}}, map[string]interface{}{"code": "n >= 2", "term": map[string]interface{}{"t": "nge2"}}}}
		}
		na := r.Range(1, 3)
		serial := r.P(1, 5)
		var acts []interface{}
		var akinds []interface{}
		for k := 0; k < na; k++ {
			kind := "ok"
			if r.P(1, 5) {
				kind = "scribble"
			}
			if !serial {
				switch r.Weighted([]int{8, 2, 1}) {
				case 1:
					kind = "throw"
				case 2:
					kind = "nocompile"
				}
			}
			acts = append(acts, map[string]interface{}{"code": c04ActionCode(id, k, kind)})
			akinds = append(akinds, kind)
		}
		if na == 1 && r.Bool() {
			rule["action"] = acts[0]
		} else {
			rule["actions"] = acts
		}
		if serial {
			rule["policies"] = map[string]interface{}{"serialActions": true}
		}
		p.Ops = append(p.Ops, h.Op{K: "addrule", Loc: "L", Id: id, J: rule, L: toStrings(akinds)})
	}
	ne := r.Range(1, 2)
	for i := 0; i < ne; i++ {
		var ev map[string]interface{}
		if r.Bool() {
			n := r.Range(1, 3)
			items := []interface{}{}
			for _, k := range r.Perm(3)[:n] {
				items = append(items, kinds[k])
			}
			ev = map[string]interface{}{"items": items, "seq": float64(i)}
		} else {
			ev = map[string]interface{}{"go": r.Pick(kinds), "seq": float64(i)}
		}
		p.Ops = append(p.Ops, h.Op{K: "event", Loc: "L", J: ev, C: i})
	}
	return p
}

func toStrings(xs []interface{}) []string {
	out := make([]string, len(xs))
	for i, x := range xs {
		out[i] = fmt.Sprint(x)
	}
	return out
}

// c04Expected computes, for one event, the executions the statement demands:
// one per (dispatched rule, when binding, condition binding, action).
type c04Exec struct {
	rule   string
	action int
	kind   string
	x, n   interface{}
}

func c04Cond(q map[string]interface{}, facts []map[string]interface{}, in map[string]interface{}) []map[string]interface{} {
	if q == nil {
		return []map[string]interface{}{in}
	}
	if xs, ok := q["and"].([]interface{}); ok {
		cur := []map[string]interface{}{in}
		for _, sub := range xs {
			var next []map[string]interface{}
			for _, b := range cur {
				next = append(next, c04Cond(sub.(map[string]interface{}), facts, b)...)
			}
			cur = next
		}
		return cur
	}
	if _, ok := q["code"]; ok {
		// the only code term generated: n >= 2
		if n, ok := in["?n"].(float64); ok && n >= 2 {
			return []map[string]interface{}{in}
		}
		return nil
	}
	pat, _ := q["pattern"].(map[string]interface{})
	bound := map[string]interface{}{}
	for k, v := range pat {
		if s, ok := v.(string); ok && strings.HasPrefix(s, "?") {
			if bv, has := in[s]; has {
				bound[k] = bv
				continue
			}
		}
		bound[k] = v
	}
	var out []map[string]interface{}
	for _, f := range facts {
		bss, err := core.Matches(nil, h.CloneMap(bound), h.CloneMap(f))
		if err != nil {
			continue
		}
		for _, more := range bss {
			nb := map[string]interface{}{}
			for k, v := range in {
				nb[k] = v
			}
			for k, v := range more {
				nb[k] = v
			}
			out = append(out, nb)
		}
	}
	return out
}

func execC04(t *testing.T, plan *h.Plan, trace bool) *h.Result {
	res := &h.Result{}
	state := plan.CfgS("state", "indexed")
	h.Arm(90*time.Second, fmt.Sprintf("C04 run_seed=%d", plan.RunSeed))
	defer h.Disarm()
	var events []h.Op
	for _, op := range plan.Ops {
		if op.K == "event" {
			events = append(events, op)
		}
	}
	type outcome struct {
		values []string
		leaves []string
		cond   string
	}
	run := func(tape simrt.Tape, tr bool) (simrt.Report, []string, []outcome, *h.CoreEngine) {
		h.SeedProcess(plan.RunSeed)
		ps := h.ResetParams()
		ps.JavascriptTimeouts = false
		back := h.NewBackend("mem")
		ctl := h.QuietControl()
		ctl.MaxFacts = 100000
		eng := h.NewCoreEngine(state, back, ctl)
		// (the state hooks a System installs: an action's Env.AddFact runs them too)
		c04Cron := hs.NewSimCron(true)
		eng.OnNewState = func(ctx *core.Context, name string, st core.State) { cron.AddHooks(ctx, c04Cron, st) }
		loc := eng.Loc("L")
		for _, op := range plan.Ops {
			switch op.K {
			case "addfact":
				loc.AddFact(h.NewCtx(h.Prot{}), op.Id, core.Map(op.Map()))
			case "addrule":
				rule := h.StripTerms(op.Map()).(map[string]interface{})
				if _, err := loc.AddRule(h.NewCtx(h.Prot{}), op.Id, core.Map(rule)); err != nil {
					panic(fmt.Sprintf("harness: AddRule %s: %v", h.Canon(rule), err))
				}
			}
		}
		eng.Store.Yield = simrt.Yield
		outs := make([]outcome, len(events))
		clients := map[string]func(){}
		for i, ev := range events {
			i, ev := i, ev
			clients[fmt.Sprintf("e%d", i)] = func() {
				fr, cond := loc.ProcessEvent(h.NewCtx(h.Prot{}), core.Map(ev.Map()))
				o := outcome{}
				if cond != nil {
					o.cond = cond.Msg
				}
				if fr != nil {
					for _, v := range fr.Values {
						o.values = append(o.values, h.CanonSet(v))
					}
					for _, er := range fr.Children {
						for _, erc := range er.Children {
							for ai, era := range erc.Children {
								disp := "incomplete"
								if era.Disposition != nil && era.Disposition.Msg == "complete" {
									disp = "complete"
								}
								val := ""
								if disp == "complete" {
									val = h.CanonSet(era.Value)
								}
								o.leaves = append(o.leaves, fmt.Sprintf("%s|%s|%d|%s|%s", er.Rule.Id, h.CanonSet(h.StripEnv(era.Bindings)), ai%maxInt(1, len(er.Rule.Actions)), disp, val))
							}
						}
					}
				}
				sort.Strings(o.values)
				sort.Strings(o.leaves)
				outs[i] = o
			}
		}
		rep, evs := simrt.Run(tape, tr, 600000, clients)
		return rep, evs, outs, eng
	}
	tape := simTape(plan)
	depth := int(plan.CfgI("pct_depth", 0))
	if plan.Tape.Preempt == nil && depth > 0 {
		dry, _, _, _ := run(simrt.Tape{Seed: plan.Tape.Seed, Preempt: map[int64]bool{}, MapOrder: plan.Tape.MapOrder}, false)
		pts := choosePreemptions(plan.Tape.Seed, depth, dry.Yields)
		tape.Preempt = map[int64]bool{}
		for _, s := range pts {
			tape.Preempt[s] = true
		}
		plan = plan.Clone()
		plan.Tape.Preempt = pts
		if plan.Tape.Preempt == nil {
			plan.Tape.Preempt = []int64{}
		}
	}
	rep, evs, outs, eng := run(tape, trace)
	res.Count("yield_points", rep.Yields)
	res.Count("task_switches", rep.Switches)
	res.Count("preemptions", rep.Preempted)
	res.Count("tasks", int64(rep.Tasks))
	if trace {
		res.Trace = evs
		if len(res.Trace) > 3000 {
			res.Trace = res.Trace[:3000]
		}
	}
	viol := func(class, sig, f string, a ...interface{}) {
		if res.Viol == nil {
			res.Viol = &h.Violation{Property: "C04", Class: class, Sig: state + ":" + sig, Detail: fmt.Sprintf(f, a...), OpIdx: 0}
			res.PlanOverride = plan
		}
	}
	switch {
	case rep.Panic != nil:
		viol("panic", "task:"+panicSite(rep.PanicStack), "task %s panicked: %v\n%s", rep.PanicTask, rep.Panic, h.Trunc(rep.PanicStack, 1500))
		return res
	case rep.Deadlock:
		viol("deadlock", "scheduler", "no task can run: %s", rep.WaitGraph)
		return res
	case rep.Livelock:
		viol("livelock", "scheduler", "step budget exhausted after %d yields", rep.Yields)
		return res
	}
	// ---- the reference: what each event must execute
	var facts []map[string]interface{}
	type ruleInfo struct {
		id     string
		body   map[string]interface{}
		kinds  []string
		serial bool
	}
	var rules []ruleInfo
	for _, op := range plan.Ops {
		switch op.K {
		case "addfact":
			facts = append(facts, op.Map())
		case "addrule":
			body := op.Map()
			ser := false
			if pm, ok := body["policies"].(map[string]interface{}); ok {
				ser, _ = pm["serialActions"].(bool)
			}
			rules = append(rules, ruleInfo{op.Id, body, op.L, ser})
		}
	}
	totalExec := 0
	for i, ev := range events {
		var wantLeaves, wantValues []string
		evm := ev.Map()
		for _, ri := range rules {
			pat, _ := h.WhenPattern(ri.body)
			wbs, err := core.Matches(nil, h.CloneMap(pat), h.CloneMap(evm))
			if err != nil {
				continue
			}
			cond, _ := ri.body["condition"].(map[string]interface{})
			for _, wb := range wbs {
				for _, cb := range c04Cond(cond, facts, map[string]interface{}(wb)) {
					for k, kind := range ri.kinds {
						bshow := h.CanonSet(h.StripEnv(cb))
						if kind == "ok" || kind == "scribble" {
							x, hasX := cb["?x"]
							if !hasX {
								x = "<unbound>"
							}
							n, hasN := cb["?n"]
							if !hasN {
								n = "<unbound>"
							}
							sees := evm
							if kind == "scribble" {
								sees = h.CloneMap(evm)
								sees["scribble"] = fmt.Sprintf("%s/%d", ri.id, k)
							}
							val := h.CanonSet(map[string]interface{}{"r": ri.id, "a": float64(k), "loc": "L", "ev": sees, "x": x, "n": n})
							wantLeaves = append(wantLeaves, fmt.Sprintf("%s|%s|%d|complete|%s", ri.id, bshow, k, val))
							wantValues = append(wantValues, val)
							totalExec++
						} else {
							wantLeaves = append(wantLeaves, fmt.Sprintf("%s|%s|%d|incomplete|", ri.id, bshow, k))
						}
					}
				}
			}
		}
		sort.Strings(wantLeaves)
		sort.Strings(wantValues)
		got := outs[i]
		if got.cond != "" {
			viol("event-failed", "cond", "event %s failed as a whole: %s", h.Canon(evm), got.cond)
			break
		}
		if h.MultisetKey(got.leaves) != h.MultisetKey(wantLeaves) {
			viol("executions-differ", diffLeaves(got.leaves, wantLeaves), "event %s: action nodes (rule|bindings|action|disposition|value)\n got  %s\n want %s", h.Canon(evm), strings.Join(got.leaves, "\n      "), strings.Join(wantLeaves, "\n      "))
			break
		}
		if h.MultisetKey(got.values) != h.MultisetKey(wantValues) {
			viol("values-differ", "values", "event %s: values %v, expected %v", h.Canon(evm), got.values, wantValues)
			break
		}
	}
	// conservation: one `exec` fact per successful execution
	if res.Viol == nil {
		srs, err := eng.Loc("L").SearchFacts(h.NewCtx(h.Prot{}), core.Map{"exec": "?e"}, false)
		if err != nil {
			viol("search-failed", "exec", "cannot count execution facts: %v", err)
		} else if len(srs.Found) != totalExec {
			viol("execution-count", "conservation", "%d successful executions reported, %d execution facts stored", totalExec, len(srs.Found))
		}
	}
	if totalExec > 0 {
		res.Nontrivial = append(res.Nontrivial, fmt.Sprintf("%d|%s|%v", rep.Switches, h.Sha(h.Canon(plan.Ops)), plan.Tape.Preempt))
	}
	return res
}

func maxInt(a, b int) int {
	if a > b {
		return a
	}
	return b
}

// diffLeaves names what kind of difference there is.
func diffLeaves(got, want []string) string {
	gm := map[string]int{}
	for _, g := range got {
		gm[g]++
	}
	missing, extra := 0, 0
	for _, w := range want {
		if gm[w] > 0 {
			gm[w]--
		} else {
			missing++
		}
	}
	for _, n := range gm {
		extra += n
	}
	switch {
	case missing > 0 && extra > 0:
		return "different"
	case missing > 0:
		return "missing"
	default:
		return "extra"
	}
}
