package worlds

import (
	"fmt"
	"testing"

	"verif/sim/h"
)

// C09 — locations are isolated except through declared parents.

func init() {
	h.Register(&h.World{Prop: "C09", Name: "forest", JournalPlans: true, Gen: genC09, Exec: func(t *testing.T, p *h.Plan, tr bool) *h.Result {
		return execLocWorld(t, p, tr, lwProfile{Prop: "C09", Battery: true, Search: true, Dispatch: true, Values: true})
	}})
}

// noDiamond reports whether every ancestor of every location is reached by
// exactly one path (and there is no loop) under the parent map.
func noDiamond(parents map[string][]string) bool {
	var count func(from string, seen map[string]int, depth int) bool
	count = func(from string, seen map[string]int, depth int) bool {
		if depth > 10 {
			return false
		}
		for _, p := range parents[from] {
			seen[p]++
			if seen[p] > 1 {
				return false
			}
			if !count(p, seen, depth+1) {
				return false
			}
		}
		return true
	}
	for l := range parents {
		if !count(l, map[string]int{l: 1}, 0) {
			return false
		}
	}
	return true
}

func genC09(r *h.Rng, tier string, idx int) *h.Plan {
	p := &h.Plan{Cfg: map[string]interface{}{}}
	p.Cfg["state"] = r.Pick([]string{"indexed", "linear"})
	p.Cfg["storage"] = "mem"
	n := r.Range(3, 5)
	locs := make([]string, n)
	for i := range locs {
		locs[i] = fmt.Sprintf("L%d", i)
	}
	p.Cfg["locs"] = toIface(locs)
	// the same fact ids exist in every location (isolation); rule ids are
	// distinct per location (equal ids along a parent chain are an error the
	// engine reports; not judged here)
	factIds := []string{"f1", "f2"}
	var allIds []string
	allIds = append(allIds, factIds...)
	for _, l := range locs {
		allIds = append(allIds, "r"+l, "made-r"+l)
	}
	// ... except in runs whose locations stay unrelated (no parents): there
	// every location keeps its own, different rule under one and the same id
	sameIds := r.P(1, 6)
	rid := func(l string) string {
		if sameIds {
			return "rs"
		}
		return "r" + l
	}
	if sameIds {
		p.Cfg["mode"] = "sameruleids"
		allIds = append(allIds, "rs", "made-rs")
	}
	p.Cfg["ids"] = toIface(allIds)
	parents := map[string][]string{}
	for _, l := range locs {
		parents[l] = nil
		p.Ops = append(p.Ops, h.Op{K: "addfact", Loc: l, Id: "f0", J: map[string]interface{}{"touch": l}})
	}
	loopy := !sameIds && r.P(1, 6) // some runs try self and indirect loops (error clause)
	// some runs let an ancestor be reachable along two paths: everything that
	// such an ancestor does not itself contribute to stays judged
	diamonds := !loopy && r.P(1, 4)
	steps := r.Range(8, 24)
	for i := 0; i < steps; i++ {
		l := r.Pick(locs)
		switch r.Weighted([]int{6, 2, 4, 1, 5, 1, 3, 2}) {
		case 0:
			f := map[string]interface{}{"at": l, "n": r.Pick([]string{"x", "y", "z"}), "v": float64(r.Range(0, 2))}
			p.Ops = append(p.Ops, h.Op{K: "addfact", Loc: l, Id: r.Pick(factIds), J: f})
		case 1:
			p.Ops = append(p.Ops, h.Op{K: "remfact", Loc: l, Id: r.Pick(factIds)})
		case 2:
			rule := map[string]interface{}{
				"when":   map[string]interface{}{"pattern": map[string]interface{}{"ping": r.Pick([]string{"a", "b", "?p"})}},
				"action": map[string]interface{}{"code": fmt.Sprintf("'%s.%d'", l, i)},
			}
			if r.P(1, 3) {
				// a rule that reads inherited facts in its condition and then writes:
				// the write belongs to the location the event was sent to, whichever
				// location owns the rule and wherever the condition found its facts
				// (every location holds its own f0, so the condition always holds;
				// the action's fact id is the rule's own, so its effect is the same
				// however many bindings the condition yields)
				rule["condition"] = map[string]interface{}{"pattern": map[string]interface{}{"touch": "?t"}}
				rule["action"] = map[string]interface{}{"code": ActionCode([]h.Op{
					{K: "addfact", Id: "made-" + rid(l), J: map[string]interface{}{"madeby": "r" + l}}}, fmt.Sprintf("%s.%d", l, i))}
			}
			p.Ops = append(p.Ops, h.Op{K: "addrule", Loc: l, Id: rid(l), J: rule})
		case 3:
			p.Ops = append(p.Ops, h.Op{K: "remrule", Loc: l, Id: rid(l)})
		case 4:
			// change the parent set, keeping single paths unless this run is loopy
			if sameIds {
				continue
			}
			var ps []string
			for try := 0; try < 6; try++ {
				ps = nil
				for _, o := range locs {
					if o != l && r.P(1, 3) {
						ps = append(ps, o)
					}
				}
				if loopy {
					if r.P(1, 4) {
						ps = append(ps, l) // self loop
					}
					break
				}
				trial := map[string][]string{}
				for k, v := range parents {
					trial[k] = v
				}
				trial[l] = ps
				if diamonds || noDiamond(trial) {
					break
				}
				ps = nil
			}
			parents[l] = ps
			p.Ops = append(p.Ops, h.Op{K: "setparents", Loc: l, L: ps})
		case 5:
			p.Ops = append(p.Ops, h.Op{K: "enable", Loc: l, Id: rid(r.Pick(locs)), B: r.Bool()})
		case 7:
			// the rule-side entry points of inheritance (and of the loop check)
			if r.Bool() {
				p.Ops = append(p.Ops, h.Op{K: "searchrules", Loc: l, J: map[string]interface{}{"ping": r.Pick([]string{"a", "b"})}, B: true})
			} else {
				p.Ops = append(p.Ops, h.Op{K: "listrules", Loc: l, B: true})
			}
		case 6:
			// a condition query: the third path (besides inherited search and
			// dispatch) on which a location sees its parents' facts
			p.Ops = append(p.Ops, h.Op{K: "query", Loc: l, J: r.PickAny([]interface{}{
				map[string]interface{}{"at": "?at", "n": "?n"}, map[string]interface{}{"n": "x"}, map[string]interface{}{"touch": "?l"}})})
		}
	}
	p.Cfg["patterns"] = []interface{}{
		map[string]interface{}{"at": "?at", "n": "?n"},
		map[string]interface{}{"n": "x"},
		map[string]interface{}{"touch": "?l"},
		map[string]interface{}{"madeby": "?r"},
	}
	p.Cfg["events"] = []interface{}{map[string]interface{}{"ping": "a"}, map[string]interface{}{"ping": "b"}}
	return p
}
