package worlds

import (
	"fmt"
	"testing"
	"time"

	"verif/sim/h"
)

// C10 — rule lifecycle: only live, enabled rules fire.

func init() {
	h.Register(&h.World{Prop: "C10", Name: "lifecycle", Gen: genC10, Exec: func(t *testing.T, p *h.Plan, tr bool) *h.Result {
		return execLocWorld(t, p, tr, lwProfile{Prop: "C10", Battery: true, Dispatch: true, Values: true, Lifecycle: true, CheckStore: true})
	}})
}

func genC10(r *h.Rng, tier string, idx int) *h.Plan {
	p := &h.Plan{Cfg: map[string]interface{}{}}
	p.Cfg["state"] = r.Pick([]string{"indexed", "linear"})
	p.Cfg["storage"] = "mem"
	p.Cfg["battery_order"] = r.Pick([]string{"get-search-dispatch", "dispatch-search-get", "search-dispatch-get", "dispatch-get-search"})
	withParent := r.Bool()
	locs := []string{"L"}
	if withParent {
		locs = append(locs, "P")
		p.Ops = append(p.Ops, h.Op{K: "setparents", Loc: "L", L: []string{"P"}})
	}
	p.Cfg["locs"] = toIface(locs)
	own := map[string][]string{"L": {"r1", "r2"}, "P": {"p1"}}
	var all []string
	for _, l := range locs {
		all = append(all, own[l]...)
	}
	p.Cfg["ids"] = toIface(append(append([]string{}, all...), "anchor", "side"))
	marker := 0
	mkRule := func(id string) map[string]interface{} {
		marker++
		key := "ev"
		if r.P(1, 5) {
			key = "ev2" // the `when` is replaced: the old pattern must stop firing
		}
		var val interface{} = id
		if r.P(1, 5) {
			val = "?any" // the same property tested with a variable: every event with that key
		}
		rule := map[string]interface{}{
			"when":   map[string]interface{}{"pattern": map[string]interface{}{key: val}},
			"action": map[string]interface{}{"code": fmt.Sprintf("'%s.m%d'", id, marker)},
		}
		if r.P(1, 7) {
			// replaced by a rule that has a schedule instead of a `when`: "re-adding
			// under the same id replaces the old rule entirely", its pattern included
			rule = map[string]interface{}{"schedule": "*/5 * * * * * *", "action": map[string]interface{}{"code": fmt.Sprintf("'%s.m%d'", id, marker)}}
		}
		if r.P(1, 6) {
			rule["ttl"] = "20s"
		}
		if r.P(1, 5) {
			// the rule goes with the location's anchor fact (removed as a dependent,
			// not by RemRule: the flag goes with the rule all the same)
			rule["deleteWith"] = []interface{}{"anchor"}
		}
		if r.P(1, 6) {
			rule["actions"] = []interface{}{rule["action"], map[string]interface{}{"code": fmt.Sprintf("'%s.m%d.b'", id, marker)}}
			delete(rule, "action")
		}
		return rule
	}
	if r.P(1, 4) {
		// a rule added again under an id whose previous holder has expired but
		// has not been looked at yet (only the item it depended on has): it is a
		// new rule from the moment the add succeeds
		p.Cfg["mode"] = "readd-after-expiry"
		p.Ops = append(p.Ops,
			h.Op{K: "addrule", Loc: "L", Id: "r1", J: map[string]interface{}{"when": map[string]interface{}{"pattern": map[string]interface{}{"ev": "r1"}}, "action": map[string]interface{}{"code": "'r1.old'"}, "ttl": "10s"}},
			h.Op{K: "addrule", Loc: "L", Id: "r2", J: map[string]interface{}{"when": map[string]interface{}{"pattern": map[string]interface{}{"ev": "r2"}}, "action": map[string]interface{}{"code": "'r2.old'"}, "ttl": "10s", "deleteWith": []interface{}{"r1"}}},
			h.Op{K: "sleep", N: int64(12 * time.Second)},
			h.Op{K: "getfact", Loc: "L", Id: "r1", Q: true},
			h.Op{K: "addrule", Loc: "L", Id: "r2", J: mkRule("r2")})
	}
	n := r.Range(6, 22)
	for i := 0; i < n; i++ {
		loc := r.Pick(locs)
		id := r.Pick(own[loc])
		switch r.Weighted([]int{8, 3, 4, 4, 2, 2, 2, 1, 1, 3, 2, 3}) {
		case 11:
			switch r.Intn(3) {
			case 0:
				p.Ops = append(p.Ops, h.Op{K: "addfact", Loc: loc, Id: "anchor", J: map[string]interface{}{"anchor": loc}})
				p.Ops = append(p.Ops, h.Op{K: "addfact", Loc: loc, Id: "side", J: map[string]interface{}{"side": loc, "deleteWith": []interface{}{"anchor"}}})
			case 1:
				p.Ops = append(p.Ops, h.Op{K: "addfact", Loc: loc, Id: "side", J: map[string]interface{}{"side": loc, "deleteWith": []interface{}{"anchor"}}})
			default:
				p.Ops = append(p.Ops, h.Op{K: "remfact", Loc: loc, Id: "anchor"})
			}
		case 0:
			p.Ops = append(p.Ops, h.Op{K: "addrule", Loc: loc, Id: id, J: mkRule(id)})
		case 1:
			p.Ops = append(p.Ops, h.Op{K: "remrule", Loc: loc, Id: id})
		case 2:
			// disable: in the owning location or, for an inherited rule, in the child
			target := loc
			if withParent && loc == "P" && r.Bool() {
				target = "L"
			}
			p.Ops = append(p.Ops, h.Op{K: "enable", Loc: target, Id: id, B: false})
		case 3:
			target := loc
			if withParent && loc == "P" && r.Bool() {
				target = "L"
			}
			p.Ops = append(p.Ops, h.Op{K: "enable", Loc: target, Id: id, B: true})
		case 4:
			p.Ops = append(p.Ops, h.Op{K: "reload"})
		case 5:
			p.Ops = append(p.Ops, h.Op{K: "sleep", N: int64(time.Duration(r.Range(5, 25)) * time.Second)})
		case 6:
			// location enable toggle
			val := r.Pick([]string{"no", "yes", "false", "true"})
			p.Ops = append(p.Ops, h.Op{K: "setprop", Loc: loc, Id: "", S: "enabled", J: val})
		case 7:
			p.Ops = append(p.Ops, h.Op{K: "addfact", Loc: loc, Id: id, J: map[string]interface{}{"plain": "data"}})
		case 8:
			p.Ops = append(p.Ops, h.Op{K: "clear", Loc: loc})
		case 10:
			// the location switched off (or on) for a while: the flag is a property
			// fact like any other and may carry an expiry; when it runs out the
			// location is what it was without the flag
			p.Ops = append(p.Ops, h.Op{K: "addfact", Loc: loc, J: map[string]interface{}{"!enabled": r.Pick([]string{"no", "no", "yes"}), "ttl": fmt.Sprintf("%ds", r.Range(5, 30))}})
		case 9:
			// the flag written through the facts API, as the property fact it is
			// (this form carries no deleteWith; it goes with the rule all the same)
			target := loc
			if withParent && loc == "P" && r.Bool() {
				target = "L"
			}
			p.Ops = append(p.Ops, h.Op{K: "addfact", Loc: target, J: map[string]interface{}{"id": id, "!disabled": r.P(2, 3)}})
		}
	}
	var events []interface{}
	for _, id := range all {
		events = append(events, map[string]interface{}{"ev": id}, map[string]interface{}{"ev2": id})
	}
	// the form a cron tick takes: an event that names the rule to run (it also
	// carries what a `when` of that rule asks for); a disabled, removed or
	// replaced rule must not run this way either
	for _, id := range own["L"] {
		events = append(events, map[string]interface{}{"trigger!": id, "ev": id, "ev2": id})
	}
	p.Cfg["events"] = events
	return p
}
