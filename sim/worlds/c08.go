package worlds

import (
	"fmt"
	"testing"
	"time"

	"verif/sim/h"
)

// C08 — deleteWith removes exactly the dependents, durably, and terminates.

func init() {
	prof := lwProfile{Prop: "C08", Battery: true, Search: true, CheckStore: true}
	h.Register(&h.World{Prop: "C08", Name: "graphs", Share: 3, JournalPlans: true, Gen: genC08, Exec: func(t *testing.T, p *h.Plan, tr bool) *h.Result {
		return execLocWorld(t, p, tr, prof)
	}})
	h.Register(&h.World{Prop: "C08", Name: "enum3", JournalPlans: true, Gen: genC08Enum,
		Enumerated: func(tier string) int { return c08EnumCount },
		Runs:       map[string]int{"quick": c08EnumCount, "thorough": c08EnumCount},
		Exec: func(t *testing.T, p *h.Plan, tr bool) *h.Result {
			return execLocWorld(t, p, tr, prof)
		}})
}

func c08Node(r *h.Rng, id string, kind int, dw []string, expiring bool) []h.Op {
	dwi := make([]interface{}, len(dw))
	for i, d := range dw {
		dwi[i] = d
	}
	switch kind {
	case 1: // rule
		rule := map[string]interface{}{"when": map[string]interface{}{"pattern": map[string]interface{}{"ev": id}}, "action": map[string]interface{}{"code": "1"}}
		if len(dw) > 0 {
			rule["deleteWith"] = dwi
		}
		if expiring {
			rule["ttl"] = "10s"
		}
		return []h.Op{{K: "addrule", Loc: "L", Id: id, J: rule}}
	default:
		f := map[string]interface{}{"node": id}
		if len(dw) > 0 {
			f["deleteWith"] = dwi
		}
		// "nothing else is deleted": an item that merely mentions another id (as a
		// value, in a list, as a key) does not depend on it
		if r.P(1, 3) {
			other := fmt.Sprintf("n%d", r.Intn(5))
			switch r.Intn(4) {
			case 0:
				f["near"] = other
			case 1:
				f["tags"] = []interface{}{other, "x"}
			case 2:
				f["about"] = map[string]interface{}{other: "deleteWith"}
			default:
				f["note"] = map[string]interface{}{"deleteWith": other} // a nested key of that name is data
			}
		}
		if expiring {
			f["ttl"] = "10s"
		}
		return []h.Op{{K: "addfact", Loc: "L", Id: id, J: f}}
	}
}

var c08Patterns = []interface{}{
	map[string]interface{}{"node": "?n"},
	map[string]interface{}{"rule": "?r"},
	map[string]interface{}{"deleteWith": []interface{}{"?d"}},
}

func genC08(r *h.Rng, tier string, idx int) *h.Plan {
	p := &h.Plan{Cfg: map[string]interface{}{}}
	p.Cfg["state"] = r.Pick([]string{"indexed", "linear"})
	p.Cfg["storage"] = "mem"
	if r.P(1, 10) {
		p.Cfg["storage"] = "bolt"
	}
	n := r.Range(4, 7)
	ids := make([]string, n)
	for i := range ids {
		ids[i] = fmt.Sprintf("n%d", i)
	}
	p.Cfg["ids"] = toIface(append(append([]string{}, ids...), "ghost", "x1", "x2"))
	propChain := false
	p.Cfg["locs"] = toIface([]string{"L"})
	p.Cfg["patterns"] = c08Patterns
	shape := r.Intn(5)
	expiringNode := -1
	if r.P(1, 3) {
		expiringNode = r.Intn(n)
	}
	// sometimes one or two more nodes expire at the same instant: one read then
	// finds several expired items at once
	alsoExpiring := map[int]bool{}
	if expiringNode >= 0 && r.Bool() {
		for k := r.Range(1, 2); k > 0; k-- {
			alsoExpiring[r.Intn(n)] = true
		}
	}
	p.Cfg["battery_order"] = r.Pick([]string{"get-search-dispatch", "dispatch-search-get", "search-dispatch-get", "dispatch-get-search"})
	for i, id := range ids {
		var dw []string
		switch shape {
		case 0: // chain
			if i > 0 {
				dw = []string{ids[i-1]}
			}
		case 1: // fan on n0
			if i > 0 {
				dw = []string{ids[0]}
			}
		case 2: // cycle
			dw = []string{ids[(i+1)%n]}
		default: // random, with self loops and dangling targets
			for _, o := range ids {
				if r.P(1, 4) {
					dw = append(dw, o)
				}
			}
			if r.P(1, 5) {
				dw = append(dw, "ghost")
			}
			if r.P(1, 6) {
				dw = append(dw, id)
			}
		}
		kind := 0
		if r.P(1, 4) {
			kind = 1
		}
		p.Ops = append(p.Ops, c08Node(r, id, kind, dw, i == expiringNode || alsoExpiring[i])...)
		if r.P(1, 5) || ((i == expiringNode || alsoExpiring[i]) && r.Bool()) {
			// a property attached to this node
			p.Ops = append(p.Ops, h.Op{K: "setprop", Loc: "L", Id: id, S: "color", J: "red"})
			if !propChain && r.Bool() {
				// ... and items that hang on the property itself (a property fact is
				// an item like any other: what names it goes when it goes)
				propChain = true
				p.Ops = append(p.Ops, h.Op{K: "addfact", Loc: "L", Id: "x1", J: map[string]interface{}{"node": "x1", "deleteWith": []interface{}{h.PropId(id, "color")}}})
				p.Ops = append(p.Ops, h.Op{K: "addfact", Loc: "L", Id: "x2", J: map[string]interface{}{"node": "x2", "deleteWith": []interface{}{"x1"}}})
			}
		}
		if kind == 1 && r.P(1, 3) {
			p.Ops = append(p.Ops, h.Op{K: "enable", Loc: "L", Id: id, B: false})
		}
	}
	// deletions in a random order
	for _, k := range r.Perm(n) {
		id := ids[k]
		switch {
		case k == expiringNode:
			p.Ops = append(p.Ops, h.Op{K: "sleep", N: int64(11 * time.Second)})
			if r.P(1, 3) {
				// the item expires while nobody looks and the location is reloaded
				p.Ops = append(p.Ops, h.Op{K: "reload"})
			}
			if len(alsoExpiring) > 0 && r.P(2, 3) {
				// one expired item is looked at, nothing else is; then another item
				// that expired with it is written anew (no expiry): it stays
				var other string
				for k2 := range ids {
					if alsoExpiring[k2] && k2 != k {
						other = ids[k2]
					}
				}
				if other != "" {
					p.Ops = append(p.Ops, h.Op{K: "getfact", Loc: "L", Id: id, Q: true})
					p.Ops = append(p.Ops, c08Node(r, other, 0, nil, false)...)
					break
				}
			}
			switch r.Intn(3) {
			case 0:
				p.Ops = append(p.Ops, h.Op{K: "getfact", Loc: "L", Id: id})
			case 1:
				// one search that meets everything that has expired
				p.Ops = append(p.Ops, h.Op{K: "search", Loc: "L", J: map[string]interface{}{"node": "?n"}})
			default:
				p.Ops = append(p.Ops, h.Op{K: "event", Loc: "L", J: map[string]interface{}{"ev": id}})
			}
		case alsoExpiring[k]:
			// (gone with the others, or removed like any other node before that)
			p.Ops = append(p.Ops, h.Op{K: "remfact", Loc: "L", Id: id})
		case r.P(1, 8):
			p.Ops = append(p.Ops, h.Op{K: "reload"})
			p.Ops = append(p.Ops, h.Op{K: "remfact", Loc: "L", Id: id})
		case r.P(1, 4):
			p.Ops = append(p.Ops, h.Op{K: "remrule", Loc: "L", Id: id})
		default:
			p.Ops = append(p.Ops, h.Op{K: "remfact", Loc: "L", Id: id})
		}
		if r.P(1, 8) {
			// removing an id that never existed must delete nothing
			p.Ops = append(p.Ops, h.Op{K: "remfact", Loc: "L", Id: "ghost"})
		}
		if r.P(1, 3) {
			break
		}
	}
	if r.P(1, 3) {
		p.Ops = append(p.Ops, h.Op{K: "reload"}, h.Op{K: "getfact", Loc: "L", Id: ids[0]})
	}
	return p
}

// Exhaustive part: every deleteWith graph over 3 facts (each node names any
// subset of the 3 nodes, self loops included) x every deletion order x both
// state implementations.
const c08EnumCount = 512 * 6 * 2

func genC08Enum(r *h.Rng, tier string, idx int) *h.Plan {
	p := &h.Plan{Cfg: map[string]interface{}{}}
	k := idx % c08EnumCount
	state := []string{"indexed", "linear"}[k%2]
	k /= 2
	order := k % 6
	g := k / 6
	p.Cfg["state"] = state
	p.Cfg["storage"] = "mem"
	ids := []string{"n0", "n1", "n2"}
	p.Cfg["ids"] = toIface(ids)
	p.Cfg["locs"] = toIface([]string{"L"})
	p.Cfg["patterns"] = c08Patterns
	p.Cfg["graph"] = g
	for i, id := range ids {
		mask := (g >> (3 * i)) & 7
		var dw []string
		for j := 0; j < 3; j++ {
			if mask&(1<<j) != 0 {
				dw = append(dw, ids[j])
			}
		}
		p.Ops = append(p.Ops, c08Node(r, id, 0, dw, false)...)
	}
	perms := [][]int{{0, 1, 2}, {0, 2, 1}, {1, 0, 2}, {1, 2, 0}, {2, 0, 1}, {2, 1, 0}}
	for _, i := range perms[order] {
		p.Ops = append(p.Ops, h.Op{K: "remfact", Loc: "L", Id: ids[i]})
	}
	return p
}
