package worlds

import (
	"fmt"
	"runtime/debug"
	"sort"
	"strings"
	"testing"
	"time"

	"github.com/Comcast/rulio/core"
	"github.com/Comcast/rulio/sys"

	"verif/sim/h"
	"verif/sim/hs"
)

// C13, world "service" — the same demand ("a result or an error, never a
// panic or a hang; the location keeps serving") for requests that arrive
// through the System, the service layer and the HTTP handler: one parameter
// of an otherwise valid request is replaced by a value of an unexpected
// shape (wrong type, odd strings, deep nesting), the request is sent in one
// of the encodings, and canary requests through the same service follow.

// (operation, parameter) pairs; "batch" takes the value as its list of requests.
var c13SvcParams = [][2]string{
	{"addfact", "fact"}, {"addfact", "id"}, {"addfact", "location"}, {"addrule", "rule"}, {"addrule", "id"},
	{"search", "pattern"}, {"search", "inherited"}, {"event", "event"}, {"query", "query"}, {"getfact", "id"},
	{"remfact", "id"}, {"remrule", "id"}, {"enable", "id"}, {"listrules", "inherited"}, {"listrules", "location"},
	{"batch", "requests"},
}

var c13SvcTransports = []string{"map", "json", "envelope", "yaml", "batch", "query", "form"}

func c13SvcValues() []interface{} {
	var out []interface{}
	var names []string
	for k := range c18IllValues {
		names = append(names, k)
	}
	sort.Strings(names)
	for _, k := range names {
		out = append(out, h.Clone(c18IllValues[k]))
	}
	out = append(out, c13Values()...)
	out = append(out, " ", "{", "}", "null", "[]", "{}", "\"q\"", "[", "- a\n- b", "a: b", "?x", "%", "%zz", "\x00", deepValue(300, false), deepValue(300, true),
		[]interface{}{map[string]interface{}{"uri": "/api/loc/facts/get"}}, []interface{}{map[string]interface{}{"uri": float64(5), "location": "L"}},
		[]interface{}{[]interface{}{}}, map[string]interface{}{"uri": "/api/sys/util/batch", "requests": []interface{}{}})
	return out
}

var c13SvcCount = len(c13SvcParams) * len(c13SvcValues()) * len(c13SvcTransports) * 2

func init() {
	h.Register(&h.World{Prop: "C13", Name: "service", JournalPlans: true, Gen: genC13Svc,
		Enumerated: func(string) int { return c13SvcCount },
		Runs:       map[string]int{"quick": c13SvcCount, "thorough": c13SvcCount},
		Exec:       execC13Svc})
}

func genC13Svc(r *h.Rng, tier string, idx int) *h.Plan {
	k := idx % c13SvcCount
	state := []string{"indexed", "linear"}[k%2]
	k /= 2
	tr := c13SvcTransports[k%len(c13SvcTransports)]
	k /= len(c13SvcTransports)
	vals := c13SvcValues()
	vi := k % len(vals)
	k /= len(vals)
	op := c13SvcParams[k%len(c13SvcParams)]
	p := &h.Plan{Cfg: map[string]interface{}{"state": state, "transport": tr, "cell": fmt.Sprintf("%s/%s/%s/%s", op[0], op[1], tr, h.Trunc(h.Canon(vals[vi]), 60))}}
	p.Ops = append(p.Ops, h.Op{K: "svc", RK: op[0], WK: op[1], N: int64(vi)})
	return p
}

func execC13Svc(t *testing.T, plan *h.Plan, trace bool) *h.Result {
	res := &h.Result{}
	var tr []string
	state := plan.CfgS("state", "indexed")
	transport := plan.CfgS("transport", "map")
	h.Arm(20*time.Second, fmt.Sprintf("C13 service run_seed=%d", plan.RunSeed))
	defer h.Disarm()
	opIdx := 0
	fail := func(class, sig, f string, a ...interface{}) {
		if res.Viol == nil {
			res.Viol = &h.Violation{Property: "C13", Class: class, Sig: state + ":" + sig, Detail: fmt.Sprintf(f, a...), OpIdx: opIdx}
		}
	}
	out := h.Bubble(t, func() {
		h.SeedProcess(plan.RunSeed)
		h.ResetParams()
		mem, _ := core.NewMemStorage(nil)
		e, err := hs.NewSvcEngine(hs.SvcConfig{State: state, TTL: sys.Forever}, h.NewSimStorage(mem), hs.NewSimCron(true))
		if err != nil {
			panic(err)
		}
		guard := func(what string, f func()) (panicked bool) {
			defer func() {
				if r := recover(); r != nil {
					st := string(debug.Stack())
					panicked = true
					fail("panic", what+":"+panicSite(st), "%s panicked: %v\n%s", what, r, h.Trunc(st, 1400))
				}
			}()
			f()
			return
		}
		req := func(m map[string]interface{}) (string, error) { return e.Request(h.NewCtx(h.Prot{}), m) }
		must := func(m map[string]interface{}) {
			if _, err := req(m); err != nil {
				panic(fmt.Sprintf("canary set-up %s: %v", h.Canon(m), err))
			}
		}
		must(map[string]interface{}{"uri": "/api/loc/facts/add", "location": "L", "id": "canaryfact", "fact": map[string]interface{}{"canary": "alive"}})
		must(map[string]interface{}{"uri": "/api/loc/rules/add", "location": "L", "id": "canaryrule", "rule": map[string]interface{}{
			"when": map[string]interface{}{"pattern": map[string]interface{}{"canarypulse": "?x"}}, "action": map[string]interface{}{"code": "'canary-fired'"}}})
		must(map[string]interface{}{"uri": "/api/loc/rules/add", "location": "L", "id": "r1", "rule": map[string]interface{}{
			"when": map[string]interface{}{"pattern": map[string]interface{}{"ev": "go"}}, "action": map[string]interface{}{"code": "1"}}})
		canary := func(after string) {
			guard("canary:add", func() {
				if _, err := req(map[string]interface{}{"uri": "/api/loc/facts/add", "location": "L", "id": "canary2", "fact": map[string]interface{}{"canary": "second"}}); err != nil {
					fail("poisoned", "svc-canary-addfact", "after %s, adding an ordinary fact through the service fails: %v", after, err)
				}
			})
			guard("canary:get", func() {
				body, err := req(map[string]interface{}{"uri": "/api/loc/facts/get", "location": "L", "id": "canaryfact"})
				if err != nil || !strings.Contains(body, `"alive"`) {
					fail("poisoned", "svc-canary-getfact", "after %s, getting the canary fact through the service gives %q %v", after, h.Trunc(body, 200), err)
				}
			})
			guard("canary:search", func() {
				body, err := req(map[string]interface{}{"uri": "/api/loc/facts/search", "location": "L", "pattern": map[string]interface{}{"canary": "alive"}})
				if err != nil || !strings.Contains(body, "canaryfact") {
					fail("poisoned", "svc-canary-search", "after %s, searching for the canary fact through the service gives %q %v", after, h.Trunc(body, 200), err)
				}
			})
			guard("canary:event", func() {
				body, err := req(map[string]interface{}{"uri": "/api/loc/events/ingest", "location": "L", "event": map[string]interface{}{"canarypulse": "now"}})
				if err != nil || strings.Count(body, "canary-fired") < 1 {
					fail("poisoned", "svc-canary-event", "after %s, an ordinary event through the service gives %q %v", after, h.Trunc(body, 300), err)
				}
			})
			guard("canary:rem", func() { req(map[string]interface{}{"uri": "/api/loc/facts/rem", "location": "L", "id": "canary2"}) })
		}
		vals := c13SvcValues()
		for i, op := range plan.Ops {
			opIdx = i
			if res.Viol != nil {
				break
			}
			val := h.Clone(vals[int(op.N)%len(vals)])
			var uri string
			var params map[string]interface{}
			if op.RK == "batch" {
				uri, params = "/sys/util/batch", map[string]interface{}{"requests": val}
			} else {
				uri, params = c18Request(h.Op{K: "bad", S: "ill", RK: op.RK, Loc: "L"})
				params[op.WK] = val
			}
			desc := fmt.Sprintf("%s %s=%s via %s", uri, op.WK, h.Trunc(h.Canon(val), 200), transport)
			var status int
			var body string
			var rerr error
			sent := true
			panicked := guard("svc:"+op.RK, func() {
				if transport == "map" {
					m := map[string]interface{}{"uri": "/api" + uri}
					for k, x := range params {
						m[k] = x
					}
					body, rerr = req(m)
					return
				}
				method, target, ctype, rbody, ok := c18Render(transport, "/api", uri, params)
				if !ok {
					sent = false
					return
				}
				status, body = e.ServeHTTP(method, target, ctype, rbody, 0)
			})
			if trace {
				tr = append(tr, fmt.Sprintf("op %d: %s -> panicked=%v status=%d err=%v body=%s", i, desc, panicked, status, rerr, h.Trunc(body, 200)))
			}
			if panicked {
				break
			}
			if !sent {
				continue
			}
			res.Nontrivial = append(res.Nontrivial, "svc|"+op.RK+"|"+op.WK+"|"+transport+"|"+h.Sha(h.Canon(val)))
			if rerr != nil || (transport != "map" && status != 200) {
				res.Count("inputs_rejected", 1)
			} else {
				res.Count("inputs_accepted", 1)
			}
			canary(desc)
		}
	})
	if res.Viol == nil {
		if out.Deadlock {
			res.Viol = &h.Violation{Property: "C13", Class: "deadlock", Sig: state + ":bubble", OpIdx: opIdx, Detail: out.Msg}
		} else if out.Panic != nil {
			res.Viol = &h.Violation{Property: "C13", Class: "harness-panic", Sig: fmt.Sprint(out.Panic), OpIdx: opIdx, Detail: h.Trunc(out.Stack, 1500)}
		}
	}
	res.Trace = tr
	return res
}
