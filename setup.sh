#!/bin/bash
# Builds the framework offline from files on disk and warms the Go build cache.
set -e
cd "$(dirname "$0")"
export GOFLAGS=-mod=mod GOPROXY=off GOSUMDB=off GOTOOLCHAIN=local
mkdir -p bin evidence replays
if [ -d tools/instr ]; then
  (cd tools/instr && go1.26.8 build -o ../../bin/instr .)
fi
# warm the cache: compile the worker once against the current /repo
TMP=$(mktemp -d /tmp/verif-setup-XXXXXX)
trap 'rm -rf "$TMP"' EXIT
python3 - "$TMP" <<'PY'
import sys, os
sys.path.insert(0, os.getcwd())
import orch
w, s = orch.build_worker(sys.argv[1], "plain")
print("plain worker built in %.1fs" % s)
w, s = orch.build_worker(sys.argv[1], "instr")
print("instrumented worker built in %.1fs" % s)
w, s = orch.build_worker(sys.argv[1], "race")
print("race worker built in %.1fs" % s)
w, s = orch.build_worker(sys.argv[1], "plainrace")
print("plain race worker built in %.1fs" % s)
PY
echo setup done
