# Per-property configuration of the checks: tiers, build flavour, evidence texts.
# runs = target number of simulated runs (all worlds of the property together);
# budget_s = wall-clock cap for the runs (enumerated parts always complete).

REAL = ["core (Location, IndexedState, LinearState, PatternIndex, TermIndex, query, events, javascript)",
        "core.MemStorage", "dependencies otto / sheens match / cronexpr / boltdb unmodified"]
STUB_COMMON = ["SimStorage wrapper (journal, latency, error and crash injection) around the real back end", "SimCron behind the real cron.AddHooks state hooks (as a System installs them)",
               "fake clock of testing/synctest (go1.26.8)"]

def tiers(q_runs, q_budget, t_runs, t_budget, race=None, prace=None, **kw):
    """race=(quick runs, quick budget, thorough runs, thorough budget[, worlds]) adds a second phase: the same
    worlds in a -race binary under the pipe-gate scheduler (see sim/simrt)."""
    q = dict(runs=q_runs, budget_s=q_budget, **kw)
    t = dict(runs=t_runs, budget_s=t_budget, **kw)
    if race:
        w = list(race[4]) if len(race) > 4 else None
        q["race"] = dict(runs=race[0], budget_s=race[1], worlds=w)
        t["race"] = dict(runs=race[2], budget_s=race[3], worlds=w)
    if prace:
        # the plain worlds once more in a -race binary (real goroutines inside the bubble)
        w = list(prace[4]) if len(prace) > 4 else None
        q["prace"] = dict(runs=prace[0], budget_s=prace[1], worlds=w)
        t["prace"] = dict(runs=prace[2], budget_s=prace[3], worlds=w)
    return {"quick": q, "thorough": t}

PROPS = {
    "C02": {
        "level": "exploration",
        "build": "plain",
        "tiers": tiers(6000, 40, 300000, 900),
        "rule": "seeded histories of AddFact/RemFact/GetFact/SearchFacts/Clear/reload over a 6-id space, facts and patterns from the JSON fragment "
                "(nested maps, arrays as sets, all scalar types, strings around the term-length limit, property variables); after every operation "
                "GetFact on every id and a battery of patterns are compared with the reference model on both state implementations. "
                "A case is non-trivial when a search returned at least one fact or an operation changed the model state; distinct = distinct "
                "(observation or operation kind, canonical model state) pairs. One run in five rewrites ids with values that differ from the stored one only inside an array (order, one element replaced at equal length) and searches with a variable bound to the whole array and with element patterns; GetFact of a plain fact must return the value last written, array order included.",
        "components": {"real": REAL, "stub": STUB_COMMON},
        "assumptions": ["core.Matches is the matching primitive of the reference model (matching itself is C05, not claimed)",
                        "go1.26.8 runtime and testing/synctest", "single client: no concurrent requests in this world (C12 covers those)"],
    },
    "C01": {
        "level": "exploration",
        "build": "plain",
        "tiers": tiers(4000, 75, 150000, 900),
        "rule": "seeded histories of AddRule/RemRule/AddFact-over-a-rule-id/EnableRule/Clear/reload/clock advance/SetParents over 1-3 locations "
                "(child, parent, grandparent) and a 4-id rule space per location; `when` patterns from the JSON fragment including empty map, "
                "empty array, null, property variables; after every operation a battery of events derived from the stored patterns (instantiated, "
                "perturbed, unrelated) is processed in every location and the (rule id, bindings) sets of FindRules.Children are compared with the "
                "reference model. Non-trivial: an event dispatched at least one rule; distinct = distinct (event, canonical model state) pairs. One run in five is a look-alike run: patterns that match one event in several ways (anonymous and named property variables over a map, array variables) with events whose values differ only in type (1 / \"1\", true / \"true\", null / \"<nil>\") or not at all; a rule is evaluated once per way of matching, with exactly those bindings (multisets are compared).",
        "components": {"real": REAL, "stub": STUB_COMMON + ["core.SimpleLocationProvider wiring of parents"]},
        "assumptions": ["core.Matches is the matching primitive of the reference model", "rule ids are disjoint between a location and its ancestors (the engine reports equal ids as an error; not judged)",
                        "actions are the constant 1 (C04 judges executions)"],
    },
    "C07": {
        "level": "exploration",
        "build": "plain",
        "tiers": tiers(6000, 45, 250000, 900),
        "rule": "timed histories on the fake clock: facts and rules written with expiry E encoded as numeric `expires`, RFC3339 `expires`, `ttl` duration "
                "string or numeric `ttl` (E - t0 from 1 s to 10 years, plus already-expired writes and never-expiring controls); observations "
                "(GetFact on every id, search battery, event dispatch battery, storage dump) placed at E-1s, inside second E-1, at E, after E, "
                "interleaved with reloads and sleeps up to 400 days; observable iff now < E, same `expires` before and after reload, purged from "
                "storage once observed. Non-trivial: an observation involved at least one expiring item; distinct = distinct (operation, canonical model state) pairs.",
        "components": {"real": REAL, "stub": STUB_COMMON},
        "assumptions": ["clock runs forward only (synctest cannot step it back)", "expiry granularity is one second (the documented unit)"],
    },
    "C08": {
        "level": "exploration",
        "build": "plain",
        "tiers": tiers(12000, 50, 200000, 900),
        "exhaustive_claim": False,
        "rule": "dependency graphs over 4-7 ids (facts, rules, property facts attached by SetProp/EnableRule) with deleteWith edges drawn as chains, fans, "
                "cycles, self loops and dangling targets; deletions by RemFact/RemRule, by expiry (ttl + clock advance + observation), after reload, in "
                "random orders; plus world enum3: every deleteWith graph over 3 facts (512 graphs incl. self loops) x all 6 deletion orders x both states, "
                "enumerated completely in both tiers. After every operation GetFact on every id, a search battery, and the storage dump are compared with the "
                "model's transitive closure; a worker death or hang during a cascade is the non-termination verdict. Non-trivial: a deletion removed "
                "at least one dependent; distinct = distinct (operation, canonical model state) pairs.",
        "components": {"real": REAL, "stub": STUB_COMMON},
        "assumptions": ["what RemFact returns for an id that does not exist is not judged", "dependents of an item that has expired but was not yet observed are don't-cares until it is observed"],
    },
    "C06": {
        "level": "fault_enumeration",
        "build": "plain",
        "tiers": tiers(520, 80, 9000, 1200),
        "exhaustive_claim": False,
        "distinct_measure": "distinct (fault kind, storage call index, history) triples executed plus distinct (operation, canonical model state) pairs",
        "rule": "world enum: histories of 3-9 operations (AddFact with ttl/expires/deleteWith, RemFact with cascades, AddRule, RemRule, EnableRule, SetParents, "
                "SetProp, Clear, clock advance) over a 4-id space, state x storage in {indexed,linear} x {mem,bolt file}; the fault-free run checks, after every "
                "operation, that a second Location built from the same storage answers like the live one (ids, contents, expires, search battery, rule "
                "battery) and counts the W storage calls; then the history is re-executed once for EVERY call index k < W and each of crash-before, "
                "crash-after-apply, error-before-apply, error-after-apply (exhaustive per history: evidence counts histories and fault points). After a "
                "crash only durable content survives (Bolt: a copy of the file at that call boundary is reopened): acknowledged operations must be "
                "reflected, ids named by the interrupted operation are old or new, nothing else changed. After an injected failure the API operation "
                "must return an error. World sampled: longer histories with reloads and up to 2 random faults. World handback: Bolt, reload, then a "
                "burst of 80-240 KB of writes (file remap) and a search whose returned JSON must still be the stored facts (a worker death is a violation). "
                "Non-trivial: a fault fired inside an operation; distinct as stated in distinct_measure.",
        "components": {"real": REAL + ["storage/bolt.BoltStorage over a real file (tmp dir)"], "stub": STUB_COMMON + ["process death = unwinding the single client with a private panic at a storage call boundary, then dropping every live object"]},
        "assumptions": ["a storage call is the unit of durability (each BoltStorage call is one committed Bolt transaction); tearing inside a Bolt commit is Bolt's contract and is not simulated",
                        "single client (no concurrent requests); crash points are storage call boundaries",
                        "after a failed or interrupted operation the ids it names are don't-cares until rewritten"],
    },
    "C10": {
        "level": "exploration",
        "build": "plain",
        "tiers": tiers(5000, 45, 150000, 900),
        "rule": "per rule id a seeded walk through add / overwrite (same or replaced `when`) / remove / disable / enable (in the owning location and, for an "
                "inherited rule, in the child) / expire (ttl + clock advance) / reload / location disable-enable / overwrite by plain data / Clear, "
                "with and without a parent location owning a rule; after every step each location processes the events matching every rule's current "
                "and former pattern. Judged: dispatched (rule, bindings) sets, ProcessEvent().Values against the rules' constant action values, "
                "RuleEnabled, GetFact of the disabled flag, storage dump; in a disabled location every operation must report an error. "
                "Non-trivial: an event fired at least one rule; distinct = distinct (event or operation, canonical model state) pairs. The disabled flag is also written through the facts API as the property fact it is ({id: rule, !disabled: bool}, which carries no deleteWith); it must go with the rule all the same.",
        "components": {"real": REAL, "stub": STUB_COMMON + ["core.SimpleLocationProvider wiring of the parent"]},
        "assumptions": ["core.Matches as matching primitive", "RuleEnabled for an id that is not a rule is not judged"],
    },
    "C09": {
        "level": "exploration",
        "build": "plain",
        "tiers": tiers(3000, 75, 120000, 900, prace=(500, 60, 15000, 600)),
        "rule": "3-5 locations behind core.SimpleLocationProvider; histories of AddFact/RemFact (same fact ids in every location), AddRule/RemRule, EnableRule, "
                "and SetParents changing the parent lists over time (single path to each ancestor; 1 run in 6 also tries self loops and indirect loops); after "
                "every operation EVERY location is observed (GetFact on every id, own and inherited search battery, dispatch battery with action values) and "
                "compared with the model in which only the addressed location changed. A loop must give an error (a stack overflow kills the worker and is "
                "reported with the journalled plan). Non-trivial: an inherited search or dispatch returned something from an ancestor; distinct = distinct "
                "(observation, canonical model state) pairs. One run in six keeps the locations unrelated (no parents) and gives every location its own, different rule under one and the same id.",
        "components": {"real": REAL, "stub": STUB_COMMON + ["core.SimpleLocationProvider (the System-level provider is exercised by C17/C11 worlds)"]},
        "assumptions": ["diamond-shaped ancestries are not generated (inherited results would appear once per path by the documented merge)",
                        "rule ids are distinct along an ancestor chain"],
    },
    "C19": {
        "level": "exploration",
        "build": "plain",
        "tiers": tiers(4000, 45, 100000, 900),
        "rule": "world matrix: every operation (AddFact, RemFact, AddRule, RemRule, EnableRule, SetParents, Clear, an event whose rule action calls Env.AddFact/Env.RemFact; "
                "GetFact, SearchFacts, GetRule, SearchRules, ListRules, StateSize, Query, ProcessEvent) x protection state {none, write key, read key, both, read-only, "
                "disabled} x caller {no key, wrong key, right key} x {indexed, linear}, enumerated completely in both tiers (576 cells); world histories: seeded "
                "histories in which protection changes between operations and reloads occur. The model decides allow/refuse; after every operation the live "
                "state (with the right keys) and the storage dump must equal the model, so a refused operation that changed anything is caught. "
                "Non-trivial: the model refused the operation; distinct = distinct (operation, canonical model state) pairs. The matrix includes AddFact of property facts (the parent list, a rule's disabled flag, the location's enabled flag and write key, a custom property): writes like any other.",
        "exhaustive_claim": False,
        "components": {"real": REAL, "stub": STUB_COMMON},
        "assumptions": ["keys are carried in core.Context.ReadKey/WriteKey as the service layer does"],
    },
    "C20": {
        "level": "exploration",
        "build": "instr",
        "tiers": tiers(7000, 45, 150000, 900, race=(600, 60, 20000, 600, ["breakersched"])),
        "rule": "world capacity: MaxFacts 1-6, histories of AddFact (given and generated ids), overwrites, RemFact, AddRule, property writes, reloads around the "
                "boundary; after every successful public add StateSize <= MaxFacts; an add the model refuses for capacity leaves live state and storage "
                "unchanged. Worlds breaker / throttle: fake-clock arrival patterns against OutboundBreaker and Throttle (see their entries). "
                "World breakersched (instrumented build): 2-6 simulated callers share one breaker with an interval longer than the run, 1-3 Zap calls each, the token "
                "scheduler switching at the breaker's lock operations with 0-4 seeded pre-emptions: exactly min(limit, calls) admissions; repeated in the race phase. "
                "Non-trivial: an add was refused for capacity or a limiter refused a call; distinct = distinct (operation, canonical state) pairs.",
        "components": {"real": REAL + ["core.OutboundBreaker, core.Throttle"], "stub": STUB_COMMON},
        "assumptions": ["an overwrite at capacity may be admitted or refused (not judged)", "expired but not yet purged items may count towards the limit (not judged)"],
    },
    "C03": {
        "level": "exploration",
        "build": "plain",
        "tiers": tiers(3000, 45, 100000, 900),
        "rule": "a location with 0-8 facts (optionally 1-2 parents holding some of them) reached through a generated history (overwrites, removals, a reload); "
                "then 10 generated query trees per world: depth <= 4, and/or arity 0-3, not, pattern with shared and fresh variables, shortCircuit on/off/absent, "
                "code terms from a closed template family (literals true/false/null/0/1/''/'s', var == literal, var, object results adding a binding). "
                "Location.Query, and the same tree used as the condition of a rule inside ProcessEvent, are compared as multisets of bindings with the "
                "compositional semantics evaluated over the reference model. Non-trivial: the query yields at least one binding; distinct = distinct "
                "(query text, canonical model state) pairs. The only simulator dimensions used are parents, reload and history; no fault or schedule applies.",
        "components": {"real": REAL + ["otto JavaScript for code terms"], "stub": STUB_COMMON},
        "assumptions": ["core.Matches is the matching primitive", "code terms use variables bound on every path to them"],
    },
    "C14": {
        "level": "exploration",
        "build": "plain",
        "tiers": tiers(3000, 45, 60000, 600, prace=(600, 60, 20000, 600)),
        "rule": "scripts from five families - value (literal, object, string, reads a binding), throwing, syntactically invalid, non-terminating "
                "(while(true){Env.sleep(d)}, d from 1 us to 1 s, so that simulated time passes), slow-but-finishing (k sleeps totalling a quarter of the limit) - "
                "placed in Location.RunJavascript, in a `code` condition (Location.Query) and in a rule action (ProcessEvent); timeout taken from "
                "Control.JavascriptTimeout, from SystemParameters.DefaultJavascriptTimeout (1 ms - 5 s), or disabled (flag off, negative value). "
                "Judged on the fake clock: a non-terminating script returns control within limit + one sleep + 1 s with an error on its node (never "
                "(nil,nil)); throw/compile errors are errors; finishing scripts return their last expression and see their binding; a bubble in which "
                "every goroutine is blocked is the hang verdict. Non-trivial: every run (each executes 2-6 scripts); distinct = distinct "
                "(place, family, script, timeout mode, limit) tuples. Plain race phase: the same worlds once more in a -race binary; here the goroutines (cron loops and callbacks, the JavaScript watchdog) are real and interleave as the Go runtime decides inside the fake-clock bubble, so a report is sound but need not repeat.",
        "components": {"real": REAL + ["otto interpreter and rulio's watchdog goroutine, on the fake clock"], "stub": STUB_COMMON},
        "assumptions": ["CPU-bound non-terminating scripts cannot be simulated in fake time (time does not advance while a goroutine runs); they are outside this check"],
    },
    "C16": {
        "level": "exploration",
        "build": "plain",
        "tiers": tiers(12000, 60, 400000, 900, prace=(1500, 90, 40000, 900)),
        "rule": "world memcron: the real cron.Cron with its own broadcaster on the fake clock; 4-16 operations at unique instants - Add (one-shot +d, !RFC3339, "
                "recurring every 1/2/5 s and every minute) over 3 ids so that replacement happens, Rem, Suspend/Resume/Pause (local and broadcast); callbacks "
                "record (id, instant) and 1 in 3 then sleeps 0.1-3.5 s (opens the window between 'popped' and 're-armed'); Timeline inspected after every "
                "operation; after the last operation every suspension is lifted and 90 simulated seconds pass (bounded liveness). Judged: no fire before due, "
                "one-shot at most once and exactly once if still registered, at most one fire per occurrence, no skipped occurrence while callbacks are shorter "
                "than the period and nothing is suspended, never a fire for an occurrence due after removal, at most one pending entry per id. "
                "World crolt: the Bolt-backed service (see its entry). Non-trivial: at least one job fired; distinct = distinct (schedule, callback "
                "duration, number of fires, removed) tuples. Plain race phase: the same worlds once more in a -race binary; here the goroutines (cron loops and callbacks, the JavaScript watchdog) are real and interleave as the Go runtime decides inside the fake-clock bubble, so a report is sound but need not repeat.",
        "components": {"real": ["cron.Cron, cron.CronBroadcaster (real goroutines, fake timers)", "crolt.Cron over a real Bolt file", "gorhill/cronexpr"], "stub": ["fake clock of testing/synctest", "http.DefaultClient transport stub recording crolt deliveries"]},
        "assumptions": ["operations never coincide with a due instant (odd microsecond residues)", "cronexpr defines the occurrences of a schedule"],
    },
    "C13": {
        "level": "exploration",
        "build": "plain",
        "tiers": tiers(22200, 90, 135000, 1200),
        "rule": "a location preloaded with a canary fact and a canary rule; hostile inputs submitted as fact, rule, pattern (SearchFacts, SearchRules), event, "
                "embedded rule (evaluate!) and query. World matrix: every (entry point, reserved key, wrong-typed value) triple on both states - 7 entry points x "
                "25 reserved keys (rule, when, pattern, condition, action(s), schedule, expires, ttl, deleteWith, id, !p, trigger!, evaluate!, _id, locations, code, "
                "endpoint, opts, policies, once, and, or, not, libraries) x 17 values (numbers, strings, booleans, null, empty and heterogeneous containers, "
                "variable-looking strings, ??, inequality variables, property variables with siblings, bad dates), each at the top level and one level down - "
                "enumerated completely in both tiers. World mutations: 1-3 stacked mutations incl. containers nested 10-5000 deep, 100 kB strings, dropped required "
                "parts. After each input: a panic reaching the caller, a worker death (stack overflow), a real-time hang (lock left held) or a failing canary "
                "operation (AddFact, GetFact, SearchFacts, ProcessEvent of the canary rule exactly once) is a violation. Non-trivial: every input; distinct = "
                "distinct (entry point, input) pairs. World service (complete in both tiers): through sys.System, service.ProcessRequest and the HTTP handler - one parameter (fact, id, location, rule, pattern, inherited, event, query; the request list of a batch) of an otherwise valid request is replaced by each of 50 values (wrong types, empty and odd strings, text that is almost JSON or YAML, 300-deep nesting, batch items with a non-string uri) and sent in each of seven encodings (generic map, JSON body, /api/json envelope, YAML, batch, query string, form) on both states; a panic is a violation, and canary requests through the same service (add, get, search, event, remove) must work afterwards.",
        "exhaustive_claim": False,
        "components": {"real": REAL, "stub": STUB_COMMON + ["entry through core.Location (System and HTTP entry are exercised by C18/C17 worlds)"]},
        "assumptions": ["well-formed JSON only (the statement's quantifier)"],
    },
    "C17": {
        "level": "exploration",
        "build": "instr",
        "tiers": tiers(2000, 60, 50000, 900, race=(600, 90, 20000, 900, ["firstload"]), prace=(600, 60, 20000, 600, ["overlap"])),
        "rule": "world twins: one request history (3-4 created locations plus a never-created one, 20-40 requests - AddFact with ttl/deleteWith, RemFact, GetFact, "
                "SearchFacts own/inherited, AddRule with and without condition, RemRule, EnableRule, ProcessEvent, SetParents, Clear - and sleeps of 0.5 ms to 4 s) "
                "executed in seven engines at once: bare core.Locations (no cache) and sys.System with cache TTL in {never, 1 ms, forever} x CheckExistence in "
                "{off, on}, each over its own SimStorage and persistent SimCron; every request must return the same normalised result in all of them; with "
                "existence checking a request to the never-created location must fail, leave no storage record and no cache entry. World firstload "
                "(instrumented build): N concurrent first requests for one location under scheduler control cause exactly one Storage.Load. "
                "Non-trivial: every request; distinct = distinct (operation, result) pairs. Race phase: the same plans' worlds are executed again in a binary built with -race whose scheduler hands the token over through pipes with raw system calls (no happens-before edge from the scheduler): execution stays serial and tape-driven, and every pair of conflicting accesses that rulio's own synchronisation does not order in the simulated schedule is reported as a data-race violation (replayable, minimised). World twins also runs System twins with TTL 1 s, and one history in three writes the location's own cacheTTL property (0, 1, 3, 1500, 100000 ms, ill-typed, removed), which overrides the system's TTL from the next load on. World overlap (plain build, fake clock): 2-6 clients start one request each at their own instants of simulated time against one location of a System with TTL in {never, 1, 200, 500, 2000 ms, forever}; an event's rule sleeps 0-2.5 s and then writes (a request that outlives the cache entry it came from), other clients add, search and get; writes use ids of their own. Judged after the last request returned and again after the entry has run out: every acknowledged write is found by GetFact and SearchFacts.",
        "components": {"real": ["sys.System incl. CachedLocations", "core", "cron.AddHooks"], "stub": STUB_COMMON + ["SimCron (persistent Cronner)"]},
        "assumptions": ["generated ids are compared as 'generated'", "the created-marker property is not searched for"],
    },
    "C18": {
        "level": "exploration",
        "build": "plain",
        "tiers": tiers(2400, 60, 60000, 900),
        "rule": "a logical request history (facts/add get rem search, rules/add rem list enable disable, events/ingest, facts/query, admin/clear, plus requests that must fail: "
                "missing or ill-typed parameters, unknown URI, failing operation) with strings that need URL/JSON/YAML escaping, rendered as query string, form body, "
                "JSON body, /api/json envelope, YAML body, /api/yaml envelope, inside /api/sys/util/batch and as the generic request map, with and without /api and "
                "version prefixes, bodies delivered in chunks of 1/7/64 bytes; each rendering drives its own engine through HTTPService.ServeHTTP while a twin "
                "sys.System receives the direct calls. Judged: error-vs-success equals the direct call (failing requests must answer 400, never 200), "
                "payloads (ids, facts, search bindings, rule lists, event values, query bindings) equal the direct result, and the final facts and rules of every "
                "engine equal the twin's. Non-trivial: every request; distinct = distinct (operation, arguments) pairs. Apart from body chunking there is no "
                "fault or schedule dimension in this property. World batches: the history, with the composite service operations take (search, then remove what was found) and replace (take, then add) sprinkled in and with failing requests among them, is cut into batches of 1-5 requests sent to /api/sys/util/batch over HTTP or as the generic request map; a twin System receives the corresponding direct calls; each item must have the outcome and payload of the same request alone, the response must be a JSON list with one result per request, and the final facts and rules must equal the twin's.",
        "components": {"real": ["service.HTTPService.ServeHTTP, service.GetHTTPRequest, service.Service.ProcessRequest", "sys.System", "core"], "stub": STUB_COMMON + ["net/http server loop (handlers are called directly with httptest recorders)"]},
        "assumptions": ["generated ids are compared as 'generated'"],
    },
    "C15": {
        "level": "exploration",
        "build": "plain",
        "tiers": tiers(2500, 60, 60000, 900, prace=(1200, 90, 30000, 900)),
        "rule": "2-3 locations under sys.System (cache TTL forever) with cron in {SimCron persistent, SimCron ephemeral, the real cron.InternalCron on the fake clock} "
                "and state in {indexed, linear}; 4-14 operations - add a scheduled rule (+Ns, !RFC3339, every 2 s, every 5 s; optional ttl; optional deleteWith an "
                "anchor fact), overwrite it by a scheduled rule / a when-rule / a plain fact, RemRule, delete the anchor (cascade), Clear, restart the engine over "
                "the same storage, duplicate ticks and stale ticks (SimCron) - with equal ids in different locations and 0.1-4 s of simulated time between "
                "operations; callers use a fresh context per request or one shared context. Every rule action records an execution fact carrying "
                "location/id/generation. At a checkpoint after every operation and every simulated second the number of executions of every rule generation "
                "must equal the number of occurrences due while it was registered and live (completeness and soundness), no execution may appear in another "
                "location, and a one-shot rule that has run is gone. Non-trivial: a scheduled rule executed; distinct = distinct (cron kind, schedule kind, "
                "executions, removed) tuples. Plain race phase: the same worlds once more in a -race binary; here the goroutines (cron loops and callbacks, the JavaScript watchdog) are real and interleave as the Go runtime decides inside the fake-clock bubble, so a report is sound but need not repeat.",
        "components": {"real": ["sys.System, cron.AddHooks, cron.InternalCron + cron.Cron (real, fake clock)", "core incl. RuleDone / trigger! dispatch, otto actions"], "stub": STUB_COMMON + ["SimCron (harness Cronner keyed by location+id; delivers ticks, duplicate and stale ticks)"]},
        "assumptions": ["after a restart every location is used again at once (an ephemeral cron can only re-register a location when it is loaded)",
                        "with an ephemeral cron a +d schedule counts from the re-registration"],
    },
    "C12": {
        "level": "exploration",
        "build": "instr",
        "tiers": tiers(4000, 100, 100000, 1200, gomaxprocs=4, race=(1500, 90, 40000, 900)),
        "distinct_measure": "distinct (operation list, pre-emption points, number of task switches) triples, i.e. distinct interleavings actually executed",
        "rule": "2-8 simulated clients issue 1-4 operations each (at most 14 in all) - AddFact/RemFact/GetFact/SearchFacts on 3 shared fact ids with unique values, "
                "AddRule/RemRule/EnableRule on 2 shared rule ids, ProcessEvent - against one location (indexed or linear state, memory storage behind SimStorage). "
                "The build is instrumented: every sync lock/unlock, `go` statement and WaitGroup of rulio goes through the simulator runtime, storage calls yield at "
                "entry and exit, map iteration order comes from the tape (sorted/reversed/shuffled); one task runs at a time and 0-4 pre-emption points drawn from "
                "the seed (PCT style, placed by a dry run) move the token at lock and storage yield points. The history, stamped with the simulator's event "
                "sequence numbers and closed by final reads of every id from memory and from storage, is checked with Porcupine against the sequential "
                "reference model (20 s limit; a time-out is counted as inconclusive, never reported). Deadlock (no runnable task), a task panic and a step "
                "budget overrun are violations. Non-trivial: the run switched tasks at least once; distinct as in distinct_measure. Race phase: the same plans' worlds are executed again in a binary built with -race whose scheduler hands the token over through pipes with raw system calls (no happens-before edge from the scheduler): execution stays serial and tape-driven, and every pair of conflicting accesses that rulio's own synchronisation does not order in the simulated schedule is reported as a data-race violation (replayable, minimised).",
        "components": {"real": REAL + ["rulio's own goroutines (rule actions) as simulator tasks"], "stub": ["simrt token scheduler (instrumentation of sync/go/WaitGroup/map range by tools/instr)", "SimStorage wrapper with yield points", "JavaScript time-outs switched off (the watchdog's select is not under scheduler control)"]},
        "assumptions": ["the instrumenter's rewrites preserve behaviour (all other checks run uninstrumented code and agree on the fault-free sequential fragment)",
                        "the race phase sees only accesses that happen in the simulated schedules (it is the detector applied to those executions, not a proof of race freedom)"],
    },
    "C11": {
        "level": "exploration",
        "build": "instr",
        "tiers": tiers(2500, 90, 80000, 1200, gomaxprocs=4, race=(1200, 90, 30000, 900)),
        "distinct_measure": "distinct (operation lists, pre-emption points, number of task switches) triples, i.e. distinct interleavings executed",
        "rule": "2-6 simulated clients, client i owning location own<i> of one sys.System (cache TTL forever or never, indexed or linear state, one shared "
                "SimStorage over core.MemStorage), each issuing 3-8 requests (AddFact, RemFact, GetFact, SearchFacts, AddRule whose action adds a fact, RemRule, "
                "ProcessEvent, Clear) starting with the very first requests after the engine is built; all clients start together, the token scheduler orders "
                "them at lock and storage yield points with 0-4 seeded pre-emptions. Judged: each client's results equal those of its sequence run alone on a "
                "fresh engine (self-differential), each location's final facts, rules and stored ids equal the solo run's, no deadlock, task panic or step "
                "budget overrun. Non-trivial: at least one task switch; distinct as in distinct_measure. Race phase: the same plans' worlds are executed again in a binary built with -race whose scheduler hands the token over through pipes with raw system calls (no happens-before edge from the scheduler): execution stays serial and tape-driven, and every pair of conflicting accesses that rulio's own synchronisation does not order in the simulated schedule is reported as a data-race violation (replayable, minimised).",
        "components": {"real": ["sys.System incl. location cache", "core", "rule-action goroutines as simulator tasks"], "stub": ["simrt token scheduler (instrumented sync/go/WaitGroup/map range)", "SimStorage wrapper with yield points", "SimCron"]},
        "assumptions": ["three runs in four get their storage injected (SimStorage); in the fourth the System makes its own at its first requests",
                        "requests go through sys.System (the HTTP handler adds only per-request contexts)"],
    },
    "C04": {
        "level": "exploration",
        "build": "instr",
        "tiers": tiers(2500, 90, 80000, 1200, gomaxprocs=4, race=(1200, 90, 30000, 900)),
        "distinct_measure": "distinct (rule set and events, pre-emption points, number of task switches) triples",
        "rule": "a location with 0-6 facts and 0-4 rules: `when` patterns with an array variable (one binding per element of the event's array), a variable or a "
                "constant; conditions yielding 0-3 bindings (pattern, pattern joined on the event variable, and-with-code); 1-3 actions per rule from a template "
                "family: 'ok' returns {r: ruleId, a: index, loc: location, ev: event, x, n} (its visible variables) and stores one execution fact through "
                "Env.AddFact, 'throw' throws, 'nocompile' does not compile; some rules ask for serialActions (their actions are all 'ok'). 1-2 events are processed by "
                "concurrent simulated clients; every action goroutine is a simulator task, ordered and pre-empted (0-3 PCT points, inside AddFact too) by the "
                "tape; map iteration order from the tape. Judged against the reference (when-match x condition x actions): the multiset of action nodes "
                "(rule, bindings, action, disposition, value), the `values` list, and the number of stored execution facts; failing actions are non-complete on "
                "their own node and change nothing else. Non-trivial: at least one action executed; distinct as in distinct_measure. Race phase: the same plans' worlds are executed again in a binary built with -race whose scheduler hands the token over through pipes with raw system calls (no happens-before edge from the scheduler): execution stays serial and tape-driven, and every pair of conflicting accesses that rulio's own synchronisation does not order in the simulated schedule is reported as a data-race violation (replayable, minimised). One action in five (kind scribble) reports like ok and then writes to its own variables (event.scribble, x, n): every execution has its own event and bindings, so no other execution may see the writes.",
        "components": {"real": REAL + ["WorkWalk and its action goroutines as simulator tasks", "otto"], "stub": ["simrt token scheduler (instrumented build)", "SimStorage wrapper with yield points"]},
        "assumptions": ["core.Matches as matching primitive", "JavaScript time-outs off (the watchdog's select is outside scheduler control)"],
    },
}
