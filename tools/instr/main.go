// instr instruments rulio's own non-test sources for the simulator runtime
// (simrt).  It reads the current /repo tree with full type information
// (golang.org/x/tools/go/packages) and writes rewritten copies of the files
// it changed into an output directory, plus instr_overlay.json mapping the
// original paths to the copies.  /repo itself is never written.
//
// Rewrites (type-directed; anything not recognised is left alone and counted):
//
//	x.Lock()/x.RLock() on sync.Mutex/RWMutex   -> simrt.Acquire(x.TryLock|x.TryRLock, x.Lock|x.RLock, site)
//	x.Unlock()/x.RUnlock() (also deferred)      -> simrt.Release(x.Unlock|x.RUnlock, site)
//	go f(a...)                                  -> args evaluated, then simrt.Go(func(){ f(a...) }, site)
//	wg.Add/Done/Wait on sync.WaitGroup          -> simrt.WGAdd/WGDone/WGWait(&wg ...)
//	for k, v := range m  (m: map[string]T)      -> for _, k := range simrt.Keys(m) { v, ok := m[k]; if !ok {continue}; ... }
package main

import (
	"bytes"
	"encoding/json"
	"flag"
	"fmt"
	"go/ast"
	"go/format"
	"go/parser"
	"go/token"
	"go/types"
	"os"
	"path/filepath"
	"sort"
	"strings"

	"golang.org/x/tools/go/ast/astutil"
	"golang.org/x/tools/go/packages"
)

const simrtPath = "github.com/Comcast/rulio/zzverif/simrt"

type stats struct {
	Locks, Unlocks, Gos, WG, Ranges int
	Atomics                         int
	Skipped                         []string
	Files                           int
}

var st stats

func main() {
	repo := flag.String("repo", "/repo", "repository root")
	out := flag.String("out", "", "output directory")
	simrtSrc := flag.String("simrt", "", "directory holding the simrt sources")
	pkgsFlag := flag.String("pkgs", "core,sys,service,cron", "packages (directories under the repo) to instrument")
	flag.Parse()
	if *out == "" {
		fmt.Fprintln(os.Stderr, "need -out")
		os.Exit(2)
	}
	var patterns []string
	for _, p := range strings.Split(*pkgsFlag, ",") {
		patterns = append(patterns, "./"+p)
	}
	cfg := &packages.Config{
		Mode:  packages.NeedName | packages.NeedFiles | packages.NeedCompiledGoFiles | packages.NeedSyntax | packages.NeedTypes | packages.NeedTypesInfo | packages.NeedImports | packages.NeedDeps,
		Dir:   *repo,
		Tests: false,
		Env:   append(os.Environ(), "GOFLAGS=-mod=mod", "GOPROXY=off", "GOSUMDB=off", "GOTOOLCHAIN=local"),
	}
	pkgs, err := packages.Load(cfg, patterns...)
	if err != nil {
		fmt.Fprintln(os.Stderr, "load:", err)
		os.Exit(2)
	}
	bad := false
	for _, p := range pkgs {
		for _, e := range p.Errors {
			fmt.Fprintln(os.Stderr, "package error:", e)
			bad = true
		}
	}
	if bad {
		os.Exit(2)
	}
	replace := map[string]string{}
	for _, p := range pkgs {
		for i, f := range p.Syntax {
			path := p.CompiledGoFiles[i]
			if strings.HasSuffix(path, "_test.go") || !strings.HasPrefix(path, *repo) {
				continue
			}
			changed := instrumentFile(p, f, path, *repo)
			if !changed {
				continue
			}
			// comments are positioned by offset and would land in odd places
			// after the rewrite: keep only those before the package clause
			// (build constraints)
			var keep []*ast.CommentGroup
			for _, cg := range f.Comments {
				if cg.End() < f.Package {
					keep = append(keep, cg)
				}
			}
			f.Comments = keep
			astutil.AddImport(p.Fset, f, simrtPath)
			var buf bytes.Buffer
			if err := format.Node(&buf, p.Fset, f); err != nil {
				fmt.Fprintln(os.Stderr, "format", path, err)
				os.Exit(2)
			}
			rel, _ := filepath.Rel(*repo, path)
			dst := filepath.Join(*out, "instr_"+strings.ReplaceAll(rel, "/", "_"))
			if err := os.WriteFile(dst, buf.Bytes(), 0o644); err != nil {
				fmt.Fprintln(os.Stderr, err)
				os.Exit(2)
			}
			replace[path] = dst
			st.Files++
		}
	}
	// the runtime itself, placed inside the rulio module path
	if *simrtSrc != "" {
		ents, _ := os.ReadDir(*simrtSrc)
		for _, e := range ents {
			if strings.HasSuffix(e.Name(), ".go") && !strings.HasSuffix(e.Name(), "_test.go") {
				src := filepath.Join(*simrtSrc, e.Name())
				dst := filepath.Join(*out, "simrt_"+e.Name())
				bs, _ := os.ReadFile(src)
				os.WriteFile(dst, bs, 0o644)
				replace[filepath.Join(*repo, "zzverif", "simrt", e.Name())] = dst
			}
		}
	}
	bs, _ := json.MarshalIndent(map[string]interface{}{"Replace": replace, "Stats": st}, "", " ")
	os.WriteFile(filepath.Join(*out, "instr_overlay.json"), bs, 0o644)
	fmt.Printf("instr: %d files, %d lock, %d unlock, %d go, %d waitgroup, %d map-range, %d atomic sites; %d left alone\n", st.Files, st.Locks, st.Unlocks, st.Gos, st.WG, st.Ranges, st.Atomics, len(st.Skipped))
}

func site(p *packages.Package, n ast.Node, repo string) string {
	pos := p.Fset.Position(n.Pos())
	rel, _ := filepath.Rel(repo, pos.Filename)
	return fmt.Sprintf("%s:%d", rel, pos.Line)
}

// syncMethod reports which sync method a call expression invokes ("" if none),
// e.g. "Mutex.Lock", "RWMutex.RLock", "WaitGroup.Wait".
func syncMethod(p *packages.Package, call *ast.CallExpr) (string, *ast.SelectorExpr) {
	sel, ok := call.Fun.(*ast.SelectorExpr)
	if !ok {
		return "", nil
	}
	s := p.TypesInfo.Selections[sel]
	if s == nil {
		return "", nil
	}
	fn, ok := s.Obj().(*types.Func)
	if !ok || fn.Pkg() == nil || fn.Pkg().Path() != "sync" {
		return "", nil
	}
	sig := fn.Type().(*types.Signature)
	if sig.Recv() == nil {
		return "", nil
	}
	rt := sig.Recv().Type()
	if pt, ok := rt.(*types.Pointer); ok {
		rt = pt.Elem()
	}
	named, ok := rt.(*types.Named)
	if !ok {
		return "", nil
	}
	return named.Obj().Name() + "." + fn.Name(), sel
}

func lit(s string) *ast.BasicLit {
	return &ast.BasicLit{Kind: token.STRING, Value: fmt.Sprintf("%q", s)}
}

func simrtCall(name string, args ...ast.Expr) *ast.CallExpr {
	return &ast.CallExpr{Fun: &ast.SelectorExpr{X: ast.NewIdent("simrt"), Sel: ast.NewIdent(name)}, Args: args}
}

func methodValue(x ast.Expr, name string) ast.Expr {
	return &ast.SelectorExpr{X: x, Sel: ast.NewIdent(name)}
}

var tmpCounter int

func tmp(prefix string) string {
	tmpCounter++
	return fmt.Sprintf("%s_vf%d", prefix, tmpCounter)
}

// rewriteSyncCall returns the replacement for a call to a sync method, or nil.
func rewriteSyncCall(p *packages.Package, call *ast.CallExpr, repo string) *ast.CallExpr {
	m, sel := syncMethod(p, call)
	if m == "" {
		return nil
	}
	s := site(p, call, repo)
	switch m {
	case "Mutex.Lock", "RWMutex.Lock":
		st.Locks++
		return simrtCall("Acquire", addrOf(p, sel.X), ast.NewIdent("true"), methodValue(sel.X, "TryLock"), methodValue(sel.X, "Lock"), lit(s))
	case "RWMutex.RLock":
		st.Locks++
		return simrtCall("Acquire", addrOf(p, sel.X), ast.NewIdent("false"), methodValue(sel.X, "TryRLock"), methodValue(sel.X, "RLock"), lit(s))
	case "Mutex.Unlock", "RWMutex.Unlock":
		st.Unlocks++
		return simrtCall("Release", methodValue(sel.X, "Unlock"), lit(s))
	case "RWMutex.RUnlock":
		st.Unlocks++
		return simrtCall("Release", methodValue(sel.X, "RUnlock"), lit(s))
	case "WaitGroup.Add":
		st.WG++
		return simrtCall("WGAdd", addrOf(p, sel.X), call.Args[0])
	case "WaitGroup.Done":
		st.WG++
		return simrtCall("WGDone", addrOf(p, sel.X))
	case "WaitGroup.Wait":
		st.WG++
		return simrtCall("WGWait", addrOf(p, sel.X))
	}
	return nil
}

// addrOf gives a *sync.WaitGroup expression for x (x may already be a pointer).
func addrOf(p *packages.Package, x ast.Expr) ast.Expr {
	if t := p.TypesInfo.TypeOf(x); t != nil {
		if _, isPtr := t.Underlying().(*types.Pointer); isPtr {
			return x
		}
	}
	return &ast.UnaryExpr{Op: token.AND, X: x}
}

func instrumentFile(p *packages.Package, f *ast.File, path, repo string) bool {
	changed := false
	// 1. calls to sync methods, in expression statements and defers
	astutil.Apply(f, func(c *astutil.Cursor) bool {
		switch n := c.Node().(type) {
		case *ast.ExprStmt:
			if call, ok := n.X.(*ast.CallExpr); ok {
				if r := rewriteSyncCall(p, call, repo); r != nil {
					n.X = r
					changed = true
				}
			}
		case *ast.DeferStmt:
			if r := rewriteSyncCall(p, n.Call, repo); r != nil {
				n.Call = r
				changed = true
			}
		}
		return true
	}, nil)
	// 2. go statements and map ranges (statement-level rewrites, post-order so
	// that nested constructs are handled first)
	astutil.Apply(f, nil, func(c *astutil.Cursor) bool {
		switch n := c.Node().(type) {
		case *ast.GoStmt:
			if _, isList := c.Parent().(*ast.BlockStmt); !isList {
				if _, isCase := c.Parent().(*ast.CaseClause); !isCase {
					st.Skipped = append(st.Skipped, "go "+site(p, n, repo))
					return true
				}
			}
			c.Replace(rewriteGo(p, n, repo))
			st.Gos++
			changed = true
		case *ast.RangeStmt:
			if r := rewriteRange(p, n, c, repo); r != nil {
				c.Replace(r)
				st.Ranges++
				changed = true
			}
		case *ast.CallExpr:
			if !isAtomicCall(p, n) {
				return true
			}
			switch c.Parent().(type) {
			case *ast.DeferStmt, *ast.GoStmt:
				st.Skipped = append(st.Skipped, "atomic "+site(p, n, repo)+" (deferred or go)")
				return true
			}
			if r := rewriteAtomic(p, n, repo); r != nil {
				c.Replace(r)
				st.Atomics++
				changed = true
			}
		}
		return true
	})
	return changed
}

// isAtomicCall: a call of a sync/atomic function or of a method of a
// sync/atomic type.
func isAtomicCall(p *packages.Package, call *ast.CallExpr) bool {
	var obj types.Object
	switch fn := call.Fun.(type) {
	case *ast.SelectorExpr:
		if s := p.TypesInfo.Selections[fn]; s != nil {
			obj = s.Obj()
		} else {
			obj = p.TypesInfo.Uses[fn.Sel]
		}
	case *ast.Ident:
		obj = p.TypesInfo.Uses[fn]
	}
	f, ok := obj.(*types.Func)
	return ok && f.Pkg() != nil && f.Pkg().Path() == "sync/atomic"
}

// rewriteAtomic: an atomic operation is a point where interleavings matter,
// so the scheduler gets a yield point right before it:
//
//	atomic.X(args)  ->  func() T { simrt.Yield(site); return atomic.X(args) }()
//
// (Go 1.14 language level: no generics, hence the literal with a spelled-out
// result type.  Only results that need no import are handled.)
func rewriteAtomic(p *packages.Package, call *ast.CallExpr, repo string) ast.Expr {
	where := site(p, call, repo)
	t := p.TypesInfo.TypeOf(call)
	var results *ast.FieldList
	var last ast.Stmt
	inner := &ast.CallExpr{Fun: call.Fun, Args: call.Args, Ellipsis: call.Ellipsis}
	if tup, ok := t.(*types.Tuple); ok && tup.Len() == 0 || t == nil {
		last = &ast.ExprStmt{X: inner}
	} else {
		var name string
		switch u := t.(type) {
		case *types.Basic:
			if u.Kind() == types.UnsafePointer {
				st.Skipped = append(st.Skipped, "atomic "+where+" (unsafe.Pointer)")
				return nil
			}
			name = u.Name()
		default:
			if it, ok := t.Underlying().(*types.Interface); ok && it.Empty() {
				name = "interface{}"
			} else {
				st.Skipped = append(st.Skipped, "atomic "+where+" (result type "+t.String()+")")
				return nil
			}
		}
		te, err := parser.ParseExpr(name)
		if err != nil {
			st.Skipped = append(st.Skipped, "atomic "+where+" (result type "+name+")")
			return nil
		}
		results = &ast.FieldList{List: []*ast.Field{{Type: te}}}
		last = &ast.ReturnStmt{Results: []ast.Expr{inner}}
	}
	fn := &ast.FuncLit{
		Type: &ast.FuncType{Params: &ast.FieldList{}, Results: results},
		Body: &ast.BlockStmt{List: []ast.Stmt{&ast.ExprStmt{X: simrtCall("Yield", lit("atomic "+where))}, last}},
	}
	return &ast.CallExpr{Fun: fn}
}

// rewriteGo: { a0 := arg0; ...; simrt.Go(func(){ f(a0, ...) }, site) }
func rewriteGo(p *packages.Package, g *ast.GoStmt, repo string) ast.Stmt {
	var pre []ast.Stmt
	call := g.Call
	newArgs := make([]ast.Expr, len(call.Args))
	for i, a := range call.Args {
		name := tmp("goarg")
		pre = append(pre, &ast.AssignStmt{Lhs: []ast.Expr{ast.NewIdent(name)}, Tok: token.DEFINE, Rhs: []ast.Expr{a}})
		newArgs[i] = ast.NewIdent(name)
	}
	inner := &ast.CallExpr{Fun: call.Fun, Args: newArgs, Ellipsis: call.Ellipsis}
	fn := &ast.FuncLit{Type: &ast.FuncType{Params: &ast.FieldList{}}, Body: &ast.BlockStmt{List: []ast.Stmt{&ast.ExprStmt{X: inner}}}}
	pre = append(pre, &ast.ExprStmt{X: simrtCall("Go", fn, lit(site(p, g, repo)))})
	return &ast.BlockStmt{List: pre}
}

// rewriteRange handles `for k, v := range m` over map[string]T with := (or no
// variables).  Labeled loops and assignments to existing variables are left alone.
func rewriteRange(p *packages.Package, r *ast.RangeStmt, c *astutil.Cursor, repo string) ast.Stmt {
	t := p.TypesInfo.TypeOf(r.X)
	if t == nil {
		return nil
	}
	mt, ok := t.Underlying().(*types.Map)
	if !ok {
		return nil
	}
	where := "range " + site(p, r, repo)
	if b, ok := mt.Key().(*types.Basic); !ok || b.Kind() != types.String {
		st.Skipped = append(st.Skipped, where+" (key type "+mt.Key().String()+")")
		return nil
	}
	if _, labeled := c.Parent().(*ast.LabeledStmt); labeled {
		st.Skipped = append(st.Skipped, where+" (labeled)")
		return nil
	}
	if r.Tok == token.ASSIGN {
		st.Skipped = append(st.Skipped, where+" (assigns existing variables)")
		return nil
	}
	mname := tmp("rngmap")
	keyName := tmp("rngkey")
	if id, ok := r.Key.(*ast.Ident); ok && id.Name != "_" {
		keyName = id.Name
	}
	var body []ast.Stmt
	if r.Value != nil {
		if id, ok := r.Value.(*ast.Ident); ok && id.Name != "_" {
			okName := tmp("rngok")
			body = append(body,
				&ast.AssignStmt{Lhs: []ast.Expr{ast.NewIdent(id.Name), ast.NewIdent(okName)}, Tok: token.DEFINE,
					Rhs: []ast.Expr{&ast.IndexExpr{X: ast.NewIdent(mname), Index: ast.NewIdent(keyName)}}},
				&ast.IfStmt{Cond: &ast.UnaryExpr{Op: token.NOT, X: ast.NewIdent(okName)}, Body: &ast.BlockStmt{List: []ast.Stmt{&ast.BranchStmt{Tok: token.CONTINUE}}}},
			)
		} else {
			// value unused: still skip keys deleted during the iteration
			okName := tmp("rngok")
			body = append(body,
				&ast.AssignStmt{Lhs: []ast.Expr{ast.NewIdent("_"), ast.NewIdent(okName)}, Tok: token.DEFINE,
					Rhs: []ast.Expr{&ast.IndexExpr{X: ast.NewIdent(mname), Index: ast.NewIdent(keyName)}}},
				&ast.IfStmt{Cond: &ast.UnaryExpr{Op: token.NOT, X: ast.NewIdent(okName)}, Body: &ast.BlockStmt{List: []ast.Stmt{&ast.BranchStmt{Tok: token.CONTINUE}}}},
			)
		}
	} else {
		okName := tmp("rngok")
		body = append(body,
			&ast.AssignStmt{Lhs: []ast.Expr{ast.NewIdent("_"), ast.NewIdent(okName)}, Tok: token.DEFINE,
				Rhs: []ast.Expr{&ast.IndexExpr{X: ast.NewIdent(mname), Index: ast.NewIdent(keyName)}}},
			&ast.IfStmt{Cond: &ast.UnaryExpr{Op: token.NOT, X: ast.NewIdent(okName)}, Body: &ast.BlockStmt{List: []ast.Stmt{&ast.BranchStmt{Tok: token.CONTINUE}}}},
		)
	}
	// a key variable that the body never uses would not compile
	body = append(body, &ast.AssignStmt{Lhs: []ast.Expr{ast.NewIdent("_")}, Tok: token.ASSIGN, Rhs: []ast.Expr{ast.NewIdent(keyName)}})
	body = append(body, r.Body.List...)
	loop := &ast.RangeStmt{
		Key: ast.NewIdent("_"), Value: ast.NewIdent(keyName), Tok: token.DEFINE,
		X:    simrtCall("Keys", ast.NewIdent(mname)),
		Body: &ast.BlockStmt{List: body},
	}
	return &ast.BlockStmt{List: []ast.Stmt{
		&ast.AssignStmt{Lhs: []ast.Expr{ast.NewIdent(mname)}, Tok: token.DEFINE, Rhs: []ast.Expr{r.X}},
		loop,
	}}
}

var _ = sort.Strings
