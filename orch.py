#!/usr/bin/env python3
"""Orchestrator of the deterministic-simulation checks.

  orch.py <PROPERTY> quick|thorough      run a check (exit 0 held / 1 violation / 2 no verdict)
  orch.py replay <file>                  re-execute a replay file on the current /repo

It rebuilds the simulation worker from /repo's working tree (through a build
overlay, /repo is never written), shards the run range over worker processes,
turns worker deaths and hangs into replayable verdicts, matches violations
against /verif/known_findings.jsonl and writes /verif/evidence/<ID>.json.
"""
import json, os, shutil, subprocess, sys, tempfile, time, hashlib, signal

VERIF = os.path.dirname(os.path.abspath(__file__))
REPO = os.environ.get("VERIF_REPO", "/repo")
GO = os.environ.get("VERIF_GO", "go1.26.8")
ENV = dict(os.environ, GOFLAGS="-mod=mod", GOPROXY="off", GOSUMDB="off", GOTOOLCHAIN="local")
NPROC = int(os.environ.get("VERIF_NPROC") or min(16, os.cpu_count() or 4))
GORACE_OPTS = "log_path=%s halt_on_error=0 history_size=3 atexit_sleep_ms=0 exitcode=0 suppress_equal_stacks=0 suppress_equal_addresses=0"

# plans of the hostile-input worlds nest thousands of levels deep; the summaries and
# replay files that carry them must stay readable
sys.setrecursionlimit(60000)
sys.path.insert(0, VERIF)
from props import PROPS  # per-property tiers, texts, build flavour


def log(*a):
    print(*a, flush=True)


def die(msg, code=2):
    log("HARNESS-ERROR:", msg)
    sys.exit(code)


def repo_head():
    try:
        h = subprocess.run(["git", "-C", REPO, "rev-parse", "HEAD"], capture_output=True, text=True).stdout.strip()
        d = subprocess.run(["git", "-C", REPO, "status", "--porcelain"], capture_output=True, text=True).stdout.strip()
        return h + ("+dirty" if d else "")
    except Exception:
        return "unknown"


def make_overlay(tmp, flavour):
    """Plain overlay: add sys/zz_verif.go, make crolt importable (package main -> crolt).
    Instrumented flavours are produced by tools/instr on top of this."""
    ov = {}
    odir = os.path.join(tmp, "overlay")
    os.makedirs(odir, exist_ok=True)
    # files added to rulio packages (build only)
    adds = os.path.join(VERIF, "sim", "overlay_add")
    for root, _, files in os.walk(adds):
        for f in files:
            if not f.endswith(".go.txt"):
                continue
            rel = os.path.relpath(os.path.join(root, f), adds)[:-4]  # strip .txt
            dst = os.path.join(odir, "add_" + rel.replace("/", "_"))
            shutil.copy(os.path.join(root, f), dst)
            ov[os.path.join(REPO, rel)] = dst
    # crolt: package main -> package crolt
    cdir = os.path.join(REPO, "crolt")
    if os.path.isdir(cdir):
        for f in sorted(os.listdir(cdir)):
            if not f.endswith(".go"):
                continue
            if f.endswith("_test.go"):
                ov[os.path.join(cdir, f)] = ""  # hidden from the build (its package clause is `main`)
                continue
            src = open(os.path.join(cdir, f)).read()
            out = []
            done = False
            for line in src.split("\n"):
                if not done and line.strip() == "package main":
                    line = "package crolt"
                    done = True
                out.append(line)
            dst = os.path.join(odir, "crolt_" + f)
            open(dst, "w").write("\n".join(out))
            ov[os.path.join(cdir, f)] = dst
    if flavour in ("instr", "race"):
        instr = os.path.join(VERIF, "bin", "instr")
        if not os.path.exists(instr):
            die("instrumenter not built (run setup)")
        r = subprocess.run([instr, "-repo", REPO, "-out", odir, "-simrt", os.path.join(VERIF, "sim", "simrt")],
                           capture_output=True, text=True, env=ENV)
        if r.returncode != 0:
            die("instrumenter failed:\n" + r.stdout[-3000:] + r.stderr[-3000:])
        extra = json.load(open(os.path.join(odir, "instr_overlay.json")))
        ov.update(extra["Replace"])
    path = os.path.join(tmp, "overlay.json")
    json.dump({"Replace": ov}, open(path, "w"), indent=1)
    return path


def build_worker(tmp, flavour):
    ov = make_overlay(tmp, flavour)
    out = os.path.join(tmp, "worker_" + flavour)
    cmd = [GO, "test", "-c", "-vet=off", "-overlay", ov, "-o", out]
    if flavour in ("race", "plainrace"):
        cmd += ["-race", "-gcflags=all=-d=checkptr=0"]
    if flavour == "instr":
        cmd += ["-tags", "simrt"]
    if flavour == "race":
        cmd += ["-tags", "simrt simrace"]
    if REPO != "/repo":
        # another tree (VERIF_REPO): the harness module's replace directive points there
        mod = open(os.path.join(VERIF, "sim", "go.mod")).read().replace("=> /repo", "=> " + REPO)
        open(os.path.join(tmp, "go.mod"), "w").write(mod)
        shutil.copy(os.path.join(VERIF, "sim", "go.sum"), os.path.join(tmp, "go.sum"))
        cmd += ["-modfile", os.path.join(tmp, "go.mod")]
    cmd += ["./worlds"]
    t0 = time.time()
    r = subprocess.run(cmd, cwd=os.path.join(VERIF, "sim"), capture_output=True, text=True, env=ENV)
    if r.returncode != 0:
        die("worker build failed (%s):\n%s\n%s" % (flavour, r.stdout[-4000:], r.stderr[-6000:]))
    return out, time.time() - t0


class Shard:
    def __init__(self, idx, tmp):
        self.idx = idx
        self.tmp = tmp
        self.inc = 0
        self.proc = None
        self.outs = []
        self.resume = None
        self.deaths = 0

    def start(self, worker, base_env, resume=None):
        self.inc += 1
        out = os.path.join(self.tmp, "out_%d_%d.json" % (self.idx, self.inc))
        self.outs.append(out)
        self.journal = os.path.join(self.tmp, "journal_%d_%d" % (self.idx, self.inc))
        self.errf = os.path.join(self.tmp, "stderr_%d_%d" % (self.idx, self.inc))
        env = dict(base_env, VERIF_SHARD=str(self.idx), VERIF_OUT=out, VERIF_JOURNAL=self.journal)
        if resume:
            env["VERIF_RESUME"] = resume
        self.proc = subprocess.Popen([worker, "-test.run", "^TestWorker$", "-test.timeout", "0", "-test.count", "1"],
                                     env=env, stdout=open(self.errf + ".out", "w"), stderr=open(self.errf, "w"),
                                     cwd=self.tmp, preexec_fn=limit_mem)


def limit_mem():
    import resource
    try:
        lim = int(os.environ.get("VERIF_MEM_LIMIT_MB", "6144")) * 1024 * 1024
        resource.setrlimit(resource.RLIMIT_AS, (lim, lim))
    except Exception:
        pass


def last_unfinished(journal):
    cur = None
    try:
        for line in open(journal):
            p = line.split()
            if not p:
                continue
            if p[0] == "run":
                cur = (p[1], int(p[2]), int(p[3]))
            elif p[0] == "done":
                cur = None
    except FileNotFoundError:
        pass
    return cur


def death_kind(code, errtext):
    if code == 3 or "WATCHDOG" in errtext:
        return "hang", "real-time-watchdog"
    for pat, sig in [("stack overflow", "stack-overflow"), ("stack exceeds", "stack-overflow"), ("concurrent map writes", "concurrent-map-writes"),
                     ("concurrent map read and map write", "concurrent-map-read-write"),
                     ("concurrent map iteration and map write", "concurrent-map-iteration-write"),
                     ("all goroutines are asleep", "go-deadlock"), ("SIGSEGV", "sigsegv"), ("unexpected fault address", "fault-address"),
                     ("out of memory", "out-of-memory"), ("cannot allocate memory", "out-of-memory")]:
        if pat in errtext:
            return "process-death", sig
    if "panic:" in errtext:
        # first rulio frame after the panic line
        site = "unknown"
        lines = errtext.split("\n")
        for i, l in enumerate(lines):
            if l.startswith("panic:"):
                for m in lines[i:i + 60]:
                    if "github.com/Comcast/rulio/" in m and not m.startswith("\t"):
                        site = m.split("(")[0].replace("github.com/Comcast/rulio/", "")
                        break
                break
        return "process-death", "panic:" + site
    return "process-death", "exit-%s" % code


def load_known():
    out = []
    p = os.path.join(VERIF, "known_findings.jsonl")
    if os.path.exists(p):
        for line in open(p):
            line = line.strip()
            if not line or line.startswith("#"):
                continue
            try:
                out.append(json.loads(line))
            except Exception:
                pass
    return out


def is_known(known, prop, cls, sig):
    for k in known:
        if k.get("status") == "open" and (k["property"] == prop or k.get("any_property")) and k["class"] == cls and k["sig"] == sig:
            return k
    return None



def execute_shards(worker, base_env, nshards, tmp, budget_s, prop):
    """Run the shards of one phase to completion; deaths and hangs of a worker
    are confirmed by re-running the run alone and become replayable verdicts."""
    os.makedirs(tmp, exist_ok=True)
    shards = [Shard(i, tmp) for i in range(nshards)]
    for s in shards:
        s.start(worker, base_env)
    hard_deadline = time.time() + budget_s * 3 + 120
    death_violations = []
    death_counts = {}
    unconfirmed = []
    harness_trouble = []
    live = list(shards)
    while live:
        time.sleep(0.2)
        for s in list(live):
            code = s.proc.poll()
            if code is None:
                if time.time() > hard_deadline:
                    s.proc.kill()
                    harness_trouble.append("shard %d exceeded the hard deadline" % s.idx)
                    live.remove(s)
                continue
            if code == 0:
                live.remove(s)
                continue
            # the worker died or hung: which run?
            raw = open(s.errf, errors="replace").read()
            err = raw[:20000] + "\n...\n" + raw[-20000:] if len(raw) > 40000 else raw
            cur = last_unfinished(s.journal)
            if code == 2 and "HARNESS" in err:
                harness_trouble.append("shard %d: %s" % (s.idx, err[-2000:]))
                live.remove(s)
                continue
            if cur is None:
                harness_trouble.append("shard %d exited with %s outside any run: %s" % (s.idx, code, err[-2000:]))
                live.remove(s)
                continue
            kind, sig = death_kind(code, err)
            world, idx, run_seed = cur
            death_counts[(kind, sig)] = death_counts.get((kind, sig), 0) + 1
            if death_counts[(kind, sig)] <= 2:
                log("worker shard %d %s (%s) during world=%s idx=%d run_seed=%d; confirming" % (s.idx, kind, sig, world, idx, run_seed))
                v = confirm_death(worker, base_env, tmp, prop, world, idx, kind, sig, s)
                if v is None:
                    unconfirmed.append("shard %d: %s at %s/%d did not reproduce when run alone (%s)" % (s.idx, kind, world, idx, sig))
                else:
                    death_violations.append(v)
            s.deaths += 1
            if s.deaths > 3 or sum(death_counts.values()) > 12 or time.time() > hard_deadline:
                live.remove(s)
                continue
            s.start(worker, base_env, resume="%s:%d" % (world, idx))
    return shards, death_violations, unconfirmed, harness_trouble


def run_check(prop, tier):
    if prop not in PROPS:
        die("unknown property " + prop)
    P = PROPS[prop]
    T = P["tiers"][tier]
    seed = int(os.environ.get("VERIF_SEED", "1") or 1)
    t_start = time.time()
    tmp = tempfile.mkdtemp(prefix="verif-%s-" % prop, dir=os.environ.get("VERIF_TMPROOT", "/tmp"))
    os.makedirs(os.path.join(VERIF, "evidence"), exist_ok=True)
    os.makedirs(os.path.join(VERIF, "replays"), exist_ok=True)
    known = load_known()
    try:
        flavour = P.get("build", "plain")
        worker, build_s = build_worker(tmp, flavour)
        log("built %s worker in %.1fs" % (flavour, build_s))
        nshards = min(NPROC, T.get("shards", NPROC))
        base_env = dict(ENV, VERIF_PROP=prop, VERIF_TIER=tier, VERIF_SEED=str(seed), VERIF_NSHARDS=str(nshards),
                        VERIF_RUNS=str(T["runs"]), VERIF_BUDGET_S=str(T["budget_s"]),
                        VERIF_REPLAY_DIR=os.path.join(VERIF, "replays"), VERIF_KNOWN=os.path.join(VERIF, "known_findings.jsonl"),
                        VERIF_TMP=tmp, VERIF_REPO_HEAD=repo_head(), GOMAXPROCS=str(T.get("gomaxprocs", 2)),
                        GOTRACEBACK="single")
        shards, death_violations, unconfirmed, harness_trouble = execute_shards(worker, base_env, nshards, os.path.join(tmp, "main"), T["budget_s"], prop)
        # ---- optional second phase: the same worlds in a -race binary (pipe gates, see simrt)
        race_cfg = T.get("race")
        race_build_s = 0
        if race_cfg:
            rworker, race_build_s = build_worker(tmp, "race")
            log("built race worker in %.1fs" % race_build_s)
            build_s += race_build_s
            rtmp = os.path.join(tmp, "race")
            os.makedirs(rtmp, exist_ok=True)
            renv = dict(base_env, VERIF_RUNS=str(race_cfg["runs"]), VERIF_BUDGET_S=str(race_cfg["budget_s"]),
                        VERIF_RACE_LOG=os.path.join(rtmp, "racelog"), VERIF_SEED=str(seed), GOMAXPROCS="8",
                        GORACE=GORACE_OPTS % os.path.join(rtmp, "racelog"))
            if race_cfg.get("worlds"):
                renv["VERIF_WORLDS"] = ",".join(race_cfg["worlds"])
            rs, rdv, runc, rht = execute_shards(rworker, renv, nshards, rtmp, race_cfg["budget_s"], prop)
            for x in rs:
                x.phase = "race"
            shards = shards + rs
            death_violations += rdv
            unconfirmed += runc
            harness_trouble += rht
        # ---- optional third phase: the plain worlds (real goroutines inside the fake-clock bubble: cron
        # loops, the JS watchdog, concurrent bursts) in a -race binary.  The interleaving is the Go
        # runtime's, not the simulator's, so a report may not repeat; it is sound all the same.
        prace_cfg = T.get("prace")
        if prace_cfg:
            pworker, pb = build_worker(tmp, "plainrace")
            log("built plain race worker in %.1fs" % pb)
            build_s += pb
            ptmp = os.path.join(tmp, "prace")
            os.makedirs(ptmp, exist_ok=True)
            penv = dict(base_env, VERIF_RUNS=str(prace_cfg["runs"]), VERIF_BUDGET_S=str(prace_cfg["budget_s"]),
                        VERIF_RACE_LOG=os.path.join(ptmp, "racelog"), GOMAXPROCS="8",
                        GORACE=GORACE_OPTS % os.path.join(ptmp, "racelog"))
            if prace_cfg.get("worlds"):
                penv["VERIF_WORLDS"] = ",".join(prace_cfg["worlds"])
            ps_, pdv, punc, pht = execute_shards(pworker, penv, nshards, ptmp, prace_cfg["budget_s"], prop)
            shards = shards + ps_
            death_violations += pdv
            unconfirmed += punc
            harness_trouble += pht
        # ---- merge
        sums = []
        for s in shards:
            for o in s.outs:
                if os.path.exists(o):
                    try:
                        sums.append(json.load(open(o)))
                    except Exception as e:
                        harness_trouble.append("unreadable summary %s: %s" % (o, e))
        if not sums and not death_violations:
            # (every shard can die before its first summary when most runs kill the process - e.g. a
            # stack overflow in a cascade; the confirmed deaths are then the whole verdict)
            die("no worker summary was produced; " + "; ".join(harness_trouble)[:3000])
        runs = sum(x["runs"] for x in sums)
        hashes = set()
        counters = {}
        runs_by_world = {}
        known_seen = {}
        samples = []
        violations = []
        notes = []
        sim_ns = 0
        completed = bool(sums) and all(x.get("completed") for x in sums)
        exhaustive = {}
        for x in sums:
            hashes.update(x.get("nontrivial_hashes") or [])
            for k, v in (x.get("counters") or {}).items():
                counters[k] = counters.get(k, 0) + v
            for k, v in (x.get("runs_by_world") or {}).items():
                runs_by_world[k] = runs_by_world.get(k, 0) + v
            for k, v in (x.get("known_seen") or {}).items():
                known_seen[k] = known_seen.get(k, 0) + v
            for smp in (x.get("samples") or []):
                if len(samples) < 3:
                    samples.append(smp)
            violations += x.get("violations") or []
            sim_ns += int(x["sim_seconds"] * 1e9) if "sim_seconds" in x else x.get("sim_nanos", 0)
            if x.get("note"):
                notes.append(x["note"])
            for k, v in (x.get("exhaustive") or {}).items():
                exhaustive[k] = exhaustive.get(k, True) and v
        if counters.get("nondeterministic_violation"):
            harness_trouble.append("a violation did not reproduce when its plan was re-executed: " + "; ".join(notes)[:2000])
        # classify death violations against known findings
        final_viol = []
        seen_sig = set()
        for v in violations:
            key = (v["violation"]["class"], v["violation"]["sig"])
            if key in seen_sig:
                continue
            seen_sig.add(key)
            final_viol.append((v["violation"], v["replay"]))
        if unconfirmed and not death_violations:
            # a death that does not repeat when its run is executed alone is not a verdict
            harness_trouble += unconfirmed
        for v, rp in death_violations:
            if (v["class"], v["sig"]) in seen_sig:
                continue
            seen_sig.add((v["class"], v["sig"]))
            k = is_known(known, prop, v["class"], v["sig"])
            if k:
                key = k["class"] + " " + k["sig"]
                known_seen[key] = known_seen.get(key, 0) + 1
            else:
                final_viol.append((v, rp))
        wall = time.time() - t_start
        run_wall = max(0.001, wall - build_s)
        cov = {
            "evaluations": int(runs + counters.get("faulted_executions", 0)),
            "plans": int(runs),
            "distinct_nontrivial": len(hashes),
            "rule": P["rule"],
            "samples": samples if samples else [{"note": "no sample recorded"}],
            "exhaustive": bool(exhaustive) and all(exhaustive.values()) and P.get("exhaustive_claim", False),
            "runs_by_world": runs_by_world,
            "runs_per_hour": int(runs / run_wall * 3600),
            "simulated_seconds": sim_ns / 1e9,
            "faults_fired": {k[6:]: v for k, v in counters.items() if k.startswith("fault.")},
            "counters": {k: v for k, v in counters.items() if not k.startswith("fault.")},
            "distinct_measure": P.get("distinct_measure", "distinct (operation kind or observation, canonical reference-model state) pairs reached in non-trivial runs"),
            "components": P.get("components", {}),
            "build": flavour,
            "plain_race_phase": ({"build": "go test -race (plain worlds: real goroutines, interleaving not controlled)", "planned_runs": prace_cfg["runs"],
                                  "worlds": prace_cfg.get("worlds") or "all"} if prace_cfg else None),
            "race_phase": ({"build": "go test -race -tags 'simrt simrace' (pipe-gate scheduler)", "planned_runs": race_cfg["runs"],
                            "executions": int(counters.get("race_detector_executions", 0)), "worlds": race_cfg.get("worlds") or "all"} if race_cfg else None),
            "known_findings_seen": known_seen,
            "completed_all_planned_runs": completed,
            "enumerated_parts_complete": exhaustive,
            "worker_shards": nshards,
            "repo_head": repo_head(),
        }
        ev = {
            "property_id": prop, "tier": tier, "seed": seed, "level": P["level"], "coverage": cov,
            "assumptions": P.get("assumptions", []), "wall_s": round(wall, 2), "violations": len(final_viol),
        }
        json.dump(ev, open(os.path.join(VERIF, "evidence", prop + ".json"), "w"), indent=1)
        log("%s %s: %d runs, %d distinct non-trivial, %.0f simulated s, wall %.1fs, faults %s" %
            (prop, tier, runs, len(hashes), sim_ns / 1e9, wall, cov["faults_fired"]))
        for key, n in sorted(known_seen.items()):
            cls, sig = key.split(" ", 1)
            k = is_known(known, prop, cls, sig)
            what = k["what"] if k else key
            log("KNOWN-FINDING: property=%s %s [%s %s] seen %d times" % (prop, what, cls, sig, n))
        if final_viol:
            if len(final_viol) > 8:
                log("(%d distinct violation signatures; showing 8)" % len(final_viol))
            for v, rp in final_viol[:8]:
                log("  %s [%s] at op %s: %s" % (v["class"], v["sig"], v.get("op_index"), " ".join((v.get("detail") or "").split())[:500]))
                log("VIOLATION property=%s replay=%s" % (prop, rp))
            return 1
        if harness_trouble:
            for h_ in harness_trouble:
                log("HARNESS-TROUBLE:", h_[:3000])
            return 2
        if runs == 0:
            die("no runs executed")
        return 0
    finally:
        if not os.environ.get("VERIF_KEEP_TMP"):
            shutil.rmtree(tmp, ignore_errors=True)


def confirm_death(worker, base_env, tmp, prop, world, idx, kind, sig, shard):
    """Re-run the run that killed a worker alone; if it dies the same way,
    write a replay file holding its plan and return (violation, replay path)."""
    out = os.path.join(tmp, "confirm_%d_%d.json" % (shard.idx, shard.inc))
    journal = out + ".journal"
    env = dict(base_env, VERIF_SHARD="0", VERIF_NSHARDS="1", VERIF_WORLD=world, VERIF_ONLY_IDX=str(idx), VERIF_OUT=out,
               VERIF_JOURNAL=journal, VERIF_JOURNAL_PLANS="1")
    r = subprocess.run([worker, "-test.run", "^TestWorker$", "-test.timeout", "0"], env=env, capture_output=True, text=True,
                       cwd=tmp, preexec_fn=limit_mem)
    if r.returncode == 0:
        return None
    kind2, sig2 = death_kind(r.returncode, r.stderr[:20000] + r.stderr[-20000:])
    if kind2 != kind:
        return None
    plan = None
    try:
        plan = json.load(open(journal + ".plan"))
    except Exception:
        return None
    v = {"property": prop, "class": kind2, "sig": plan.get("config", {}).get("state", "") + ":" + sig2,
         "detail": ("worker process %s while executing this plan; last output:\n" % kind2) + r.stderr[-3000:], "op_index": -1}
    rp = {"property": prop, "seed": plan.get("seed"), "run_seed": plan.get("run_seed"), "plan": plan, "violation": v,
          "repo_head": repo_head(), "minimiser_executions": 0}
    bs = json.dumps(rp, indent=1)
    d = os.path.join(VERIF, "replays", prop)
    os.makedirs(d, exist_ok=True)
    path = os.path.join(d, hashlib.sha256(bs.encode()).hexdigest()[:16] + ".json")
    open(path, "w").write(bs)
    return v, path


def run_replay(path):
    rp = json.load(open(path))
    prop = rp["property"]
    P = PROPS[prop]
    tmp = tempfile.mkdtemp(prefix="verif-replay-", dir=os.environ.get("VERIF_TMPROOT", "/tmp"))
    try:
        race = rp["violation"]["class"] == "data-race"
        flav = P.get("build", "plain")
        if race:
            flav = "race" if flav == "instr" and rp["plan"].get("world") not in ((P["tiers"]["quick"].get("prace") or {}).get("worlds") or []) else "plainrace"
        worker, _ = build_worker(tmp, flav)
        env = dict(ENV, VERIF_PROP=prop, VERIF_REPLAY=os.path.abspath(path), VERIF_TMP=tmp,
                   VERIF_KNOWN=os.path.join(VERIF, "known_findings.jsonl"), GOMAXPROCS="2", GOTRACEBACK="single")
        if race:
            env["GOMAXPROCS"] = "8"
            env["VERIF_RACE_LOG"] = os.path.join(tmp, "racelog")
            env["GORACE"] = GORACE_OPTS % os.path.join(tmp, "racelog")
        # A data-race file is replayed in up to five fresh processes: the schedule is the same each
        # time, but whether the detector still remembers the first access of a pair depends on its
        # bounded shadow memory, which varies from process to process (a report is never spurious).
        for attempt in range(5 if race else 1):
            r = subprocess.run([worker, "-test.run", "^TestWorker$", "-test.timeout", "0"], env=env, capture_output=True, text=True,
                               cwd=tmp, preexec_fn=limit_mem)
            if r.returncode != 0:
                break
        sys.stdout.write(r.stdout)
        if r.returncode in (0, 1):
            return r.returncode
        if rp["violation"]["class"] in ("process-death", "hang"):
            kind, sig = death_kind(r.returncode, r.stderr[:20000] + r.stderr[-20000:])
            if kind == rp["violation"]["class"]:
                log("REPLAY worker %s again (%s)" % (kind, sig))
                log("VIOLATION property=%s replay=%s" % (prop, path))
                return 1
        sys.stdout.write(r.stderr[-3000:])
        log("REPLAY did not reproduce the recorded violation (worker exit %s)" % r.returncode)
        return 2
    finally:
        shutil.rmtree(tmp, ignore_errors=True)


def run_selftest(prop, reps=3):
    """Determinism self-test: run the quick tier's first runs several times, in
    separate processes, at GOMAXPROCS 1, 4 and 16 and different shard counts;
    every run's digest (what it observed and its verdict) must be identical."""
    P = PROPS[prop]
    tmp = tempfile.mkdtemp(prefix="verif-selftest-%s-" % prop, dir=os.environ.get("VERIF_TMPROOT", "/tmp"))
    try:
        flav = os.environ.get("VERIF_SELFTEST_FLAVOUR") or P.get("build", "plain")
        worker, _ = build_worker(tmp, flav)
        runs = int(os.environ.get("VERIF_SELFTEST_RUNS", "400"))
        all_digests = []
        # (race flavour: the detector needs the woken task to find a P other than the one the
        # parking task still holds; with fewer than 3 Ps it misses about half of the reports)
        for rep, (gmp, nsh) in enumerate(([(4, 4), (8, 7), (16, 16)] if flav == "race" else [(1, 4), (4, 7), (16, 16)])[:reps]):
            env = dict(ENV, VERIF_PROP=prop, VERIF_TIER="quick", VERIF_SEED=os.environ.get("VERIF_SEED", "1"), VERIF_NSHARDS=str(nsh),
                       VERIF_RUNS=str(runs), VERIF_BUDGET_S="300", VERIF_REPLAY_DIR=os.path.join(tmp, "replays"),
                       VERIF_KNOWN=os.path.join(VERIF, "known_findings.jsonl"), VERIF_TMP=tmp, GOMAXPROCS=str(gmp), VERIF_DIGESTS="1",
                       VERIF_MAX_VIOL="1000000", VERIF_MIN_RUNS="0", VERIF_NO_ENUM="1")
            if flav == "race":
                rl = os.path.join(tmp, "racelog_%d" % rep)
                env["VERIF_RACE_LOG"] = rl
                env["GORACE"] = GORACE_OPTS % rl
                ws = (P["tiers"]["quick"].get("race") or {}).get("worlds")
                if ws:
                    env["VERIF_WORLDS"] = ",".join(ws)
            procs = []
            for sh in range(nsh):
                out = os.path.join(tmp, "st_%d_%d.json" % (rep, sh))
                e = dict(env, VERIF_SHARD=str(sh), VERIF_OUT=out)
                procs.append((out, subprocess.Popen([worker, "-test.run", "^TestWorker$", "-test.timeout", "0"], env=e, cwd=tmp,
                                                    stdout=subprocess.DEVNULL, stderr=subprocess.DEVNULL, preexec_fn=limit_mem)))
            d = {}
            for out, pr in procs:
                pr.wait()
                if os.path.exists(out):
                    d.update(json.load(open(out)).get("digests") or {})
            all_digests.append(d)
            log("selftest %s rep %d: GOMAXPROCS=%d shards=%d -> %d run digests" % (prop, rep, gmp, nsh, len(d)))
        base = all_digests[0]
        bad = []
        for d in all_digests[1:]:
            for k, v in base.items():
                if k in d and d[k] != v:
                    bad.append(k)
        if bad:
            log("SELFTEST-FAILED property=%s: %d runs differ between repetitions, e.g. %s" % (prop, len(set(bad)), sorted(set(bad))[:10]))
            return 2
        log("SELFTEST-OK property=%s: %d runs identical across %d repetitions" % (prop, len(base), len(all_digests)))
        return 0
    finally:
        shutil.rmtree(tmp, ignore_errors=True)


def main():
    if len(sys.argv) >= 3 and sys.argv[1] == "selftest":
        sys.exit(run_selftest(sys.argv[2]))
    if len(sys.argv) >= 3 and sys.argv[1] == "replay":
        sys.exit(run_replay(sys.argv[2]))
    if len(sys.argv) < 3:
        die("usage: orch.py <PROPERTY> quick|thorough | orch.py replay <file>")
    tier = os.environ.get("VERIF_TIER") or sys.argv[2]
    if tier not in ("quick", "thorough"):
        tier = sys.argv[2]
    sys.exit(run_check(sys.argv[1], tier))


if __name__ == "__main__":
    signal.signal(signal.SIGTERM, lambda *a: sys.exit(2))
    main()
